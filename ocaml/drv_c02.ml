(* drv_c02.ml : model side of the C02 correspondence, and monitors over implementation observations.
   Library values (header hash, roots, decodability, header proof verdict) arrive on the line, computed by the
   harness with the same library functions the validator calls; here they instantiate the Section variables of
   Model/History.v.  Variant: repaired (the current tree); C02_VARIANT=bwko selects the flags (b bind, w withdrawals,
   k key guard, o oracle bind; '-' = as found), e.g. C02_VARIANT=---- is the code as found. *)
open C02_model
let b (l : int list) : byte list = Obj.magic l
let ub (l : byte list) : int list = Obj.magic l
let int_n (x : n) : int = Util.int_of_n (Obj.magic x)
let n_hex (s : string) : n = Obj.magic (Util.n_of_hex s)
let hex_n (x : n) : string = Util.hex_of_n (Obj.magic x)
let hx l = Util.hex_of_bytes (ub l)
let unhx s = b (Util.bytes_of_hex s)

let variant =
  match Sys.getenv_opt "C02_VARIANT" with
  | Some s when String.length s = 5 ->
    { v_bind = s.[0] <> '-'; v_wd = s.[1] <> '-'; v_key = s.[2] <> '-'; v_obind = s.[3] <> '-'; v_numlen = s.[4] <> '-' }
  | _ -> repaired

let starts s p = String.length s >= String.length p && String.sub s 0 (String.length p) = p
let contains s sub =
  let n = String.length s and m = String.length sub in
  let rec go i = i + m <= n && (String.sub s i m = sub || go (i + 1)) in go 0

(* ---- ground truth descriptors ---- *)
type hd = HX | HY | HH of header * char
type truth = { th : hd; tb : (bytes * bytes * bytes option) option; tbx : string; tr : bytes option }

let opt_bytes s = if s = "n" then None else Some (unhx s)
let parse_hdesc (s : string) : header =
  let s = match String.index_opt s '@' with Some i -> String.sub s 0 i | None -> s in   (* "@<rlp>" is for replay only *)
  match String.split_on_char ',' s with
  | [hash; num; u; t; r; w] ->
    { h_rest = unhx hash; h_number = n_hex num; h_uncle = unhx u; h_tx = unhx t; h_rcpt = unhx r; h_wd = opt_bytes w }
  | _ -> failwith ("hdesc " ^ s)
let show_hdesc (h : header) : string =
  Printf.sprintf "%s,%s,%s,%s,%s,%s" (hx h.h_rest) (hex_n h.h_number) (hx h.h_uncle) (hx h.h_tx) (hx h.h_rcpt)
    (match h.h_wd with None -> "n" | Some w -> hx w)
let parse_H s = if s = "x" then HX else if s = "y" then HY else
    match String.split_on_char '/' s with
    | [d; p] -> HH (parse_hdesc d, p.[0])
    | _ -> failwith ("H " ^ s)
let parse_B s = if s <> "" && s.[0] = 'x' then None else
    match String.split_on_char ',' s with
    | [u; t; w] -> Some (unhx u, unhx t, opt_bytes w)
    | _ -> failwith ("B " ^ s)
let parse_R s = if s = "x" then None else Some (unhx s)
let parse_S s = if s = "e" then None else Some (parse_hdesc s)
let parse_truth h bd r = { th = parse_H h; tb = parse_B bd; tbx = bd; tr = parse_R r }

let empty_receipt_hash = unhx "56e81f171bcc55a6ff8345e692c0f86e5b48e01b996cadc001622fb5e363b421"

(* ---- instantiation of the Section variables from a table content -> truth ---- *)
let find (tbl : (int list * truth) list) (c : bytes) : truth =
  match List.assoc_opt (ub c) tbl with Some t -> t | None -> failwith "content without ground truth"
let hdr_hash (h : header) : bytes = h.h_rest
let dec_hwp tbl c = match (find tbl c).th with HX -> None | _ -> Some (c, c)      (* (header bytes, proof) named by the content *)
let dec_header tbl c = match (find tbl c).th with HH (h, _) -> Some h | _ -> None
let proof_check tbl (_ : header) p =
  match (find tbl p).th with HH (_, 'o') -> Ok () | HH (_, 'p') -> Panic | _ -> Err e_DECODE
let dec_body tbl c = (find tbl c).tb
let uncle_hash (u, _, _) = u
let tx_root (_, t, _) = t
let wd_root (_, _, w) = w
let dec_receipts tbl c = (find tbl c).tr
let receipt_root (r : bytes) = r

let m_validate var tbl src key content =
  validate_content hdr_hash (dec_hwp tbl) (dec_header tbl) (proof_check tbl) (dec_body tbl) uncle_hash tx_root wd_root
    (dec_receipts tbl) receipt_root empty_receipt_hash var src key content
let m_run var tbl ops st =
  run_ops hdr_hash (dec_hwp tbl) (dec_header tbl) (proof_check tbl) (dec_body tbl) uncle_hash tx_root wd_root
    (dec_receipts tbl) receipt_root empty_receipt_hash var ops st

let show_res = function Ok () -> "ok" | Err e -> Printf.sprintf "err %d" (int_n e) | Panic -> "panic"

(* ---- monitors: the predicates of the theorems on the implementation's verdict ----
   C02_accept_iff: the repaired model accepts exactly the content bound to the key (relative to the header the
   source returned, whose real hash is on the line).  impl ok & not bound = forged content accepted; the function
   below only names WHICH binding failed. *)
let classify_accept (key : bytes) (content : bytes) (t : truth) (s : header option) : string =
  match ub key with
  | [] -> "accepted-empty-key"
  | (0 | 1 | 2) :: kh when List.length kh <> 32 ->
    Printf.sprintf "accepted-key-wrong-length selector=%d len=%d" (List.hd (ub key)) (List.length kh)
  | 3 :: kh when List.length kh <> 8 -> Printf.sprintf "accepted-number-key-wrong-length len=%d" (List.length kh)
  | 0 :: kh ->
    (match t.th with
     | HH (h, p) -> if ub h.h_rest <> kh then "accepted-header-hash-mismatch"
       else if p <> 'o' then "accepted-header-proof-invalid" else "accepted-unbound-content-other"
     | _ -> "accepted-header-undecodable")
  | 3 :: kh ->
    (match t.th with
     | HH (h, p) ->
       (match key_number (b kh) with
        | None -> "accepted-header-number-key-short"
        | Some n -> if h.h_number <> n then "accepted-header-number-mismatch"
          else if p <> 'o' then "accepted-header-proof-invalid" else "accepted-unbound-content-other")
     | _ -> "accepted-header-undecodable")
  | 1 :: kh ->
    (match s with
     | None -> "accepted-body-without-header"
     | Some sh ->
       if ub sh.h_rest <> kh then "accepted-body-against-unbound-header" else
         match t.tb with
         | None ->
           (match t.tbx with
            | "xu" -> "accepted-body-uncles-undecodable"
            | "xt" -> "accepted-body-transaction-undecodable"
            | "xw" -> "accepted-body-withdrawal-undecodable"
            | _ -> "accepted-body-undecodable")
         | Some (u, tx, w) ->
           if u <> sh.h_uncle then "accepted-body-uncle-mismatch"
           else if tx <> sh.h_tx then "accepted-body-tx-root-mismatch"
           else (match w, sh.h_wd with
               | None, Some _ -> "accepted-legacy-body-for-withdrawals-header"
               | Some a, Some c when a <> c -> "accepted-body-withdrawals-mismatch"
               | Some _, None -> "accepted-body-withdrawals-mismatch"
               | _ -> "accepted-unbound-content-other"))
  | 2 :: kh ->
    (match s with
     | None -> "accepted-receipts-without-header"
     | Some sh ->
       if ub sh.h_rest <> kh then "accepted-receipts-against-unbound-header" else
         match t.tr with
         | None -> "accepted-receipts-undecodable"
         | Some r -> if r <> sh.h_rcpt then "accepted-receipts-root-mismatch" else "accepted-unbound-content-other")
  | _ -> "accepted-unknown-selector"

let classify_panic (key : bytes) (t : truth) (s : header option) (impl : string) : string =
  match ub key, t.tb, s with
  | [], _, _ -> "validator-panics-empty-key"
  | (0 | 3) :: _, _, _ when (match t.th with HH (_, 'p') -> true | _ -> false) -> "validator-panics-in-header-proof-check"
  | 1 :: _, Some (_, _, Some _), Some { h_wd = None; _ } when contains impl "nil_pointer" -> "validator-panics-nil-withdrawals-hash"
  | _ -> "validator-panics-other"

let vc_monitors tbl src key content (impl : string) : string list =
  let t = find tbl content in
  let s = src (b []) in      (* the per-case source is a constant function *)
  let spec = m_validate repaired tbl src key content in
  if starts impl "ok" then (if spec = Ok () then [] else [classify_accept key content t s ^ " spec=" ^ show_res spec])
  else if starts impl "panic" then [classify_panic key t s impl ^ " " ^ impl]
  else if starts impl "err" then (if spec = Ok () then ["rejected-genuine-content " ^ impl] else [])
  else ["unparsable-observation " ^ impl]

(* ---- histories ---- *)
let split_on c s = if s = "" then [] else String.split_on_char c s

type item = { ikey : bytes; icontent : bytes; isrc : header option }

(* returns (op for the model, table entries, description used by the monitors) *)
type hop = HOffer of item list | HGet of int * bytes * bytes option * header option

let parse_item (s : string) : item * (int list * truth) =
  match String.split_on_char '~' s with
  | [k; c; h; bd; r; sr] ->
    let c' = unhx c in ({ ikey = unhx k; icontent = c'; isrc = parse_S sr }, (ub c', parse_truth h bd r))
  | _ -> failwith ("item " ^ s)

let parse_op (s : string) : hop * (int list * truth) list =
  if starts s "O:" then begin
    let its = List.map parse_item (split_on '+' (String.sub s 2 (String.length s - 2))) in
    (HOffer (List.map fst its), List.map snd its)
  end else if starts s "G" then begin
    let t = Char.code s.[1] - 48 in
    match String.split_on_char '~' (String.sub s 3 (String.length s - 3)) with
    | [hash; rem; h; bd; r; sr] ->
      let remote = if rem = "n" then None else Some (unhx rem) in
      let tbl = match remote with None -> [] | Some c -> [(ub c, parse_truth h bd r)] in
      (HGet (t, unhx hash, remote, parse_S sr), tbl)
    | _ -> failwith ("G " ^ s)
  end else failwith ("op " ^ s)

let src_of_items (its : item list) : bytes -> header option = fun kh ->
  let rec go = function
    | [] -> None
    | it :: r -> (match ub it.ikey with _ :: kh' when kh' = ub kh -> (match go r with Some x -> Some x | None -> it.isrc) | _ -> go r) in
  (* the harness map keeps the LAST item's source for a hash *)
  let rec last acc = function
    | [] -> acc
    | it :: r -> (match ub it.ikey with _ :: kh' when kh' = ub kh -> last (Some it.isrc) r | _ -> last acc r) in
  ignore go; match last None its with Some s -> s | None -> None

let model_op (o : hop) : op =
  match o with
  | HOffer its -> OpOffer (src_of_items its, List.map (fun i -> i.ikey) its, List.map (fun i -> i.icontent) its)
  | HGet (t, hash, remote, s) ->
    OpGet (Obj.magic (Util.n_of_int t), (fun _ -> s), (fun _ -> remote), hash)

let show_puts (p : (bytes * bytes) list) =
  match p with [] -> "." | _ -> String.concat "+" (List.map (fun (k, c) -> hx k ^ ":" ^ hx c) p)
let rc = function Ok _ -> "o" | Err _ -> "e" | Panic -> "p"
let show_obs = function
  | ObsOffer (r, p) -> rc r ^ "," ^ show_puts p
  | ObsHeader (r, p) -> rc r ^ (match r with Ok h -> hx h.h_rest | _ -> "") ^ "," ^ show_puts p
  | ObsBody (r, p) ->
    rc r ^ (match r with Ok (u, t, w) -> Printf.sprintf "%s,%s,%s" (hx u) (hx t) (match w with None -> "n" | Some w -> hx w) | _ -> "") ^ "," ^ show_puts p
  | ObsReceipts (r, p) -> rc r ^ (match r with Ok r -> hx r | _ -> "") ^ "," ^ show_puts p

(* C02_history_sound on the implementation's observations.  Every (key, content) pair the recording storage saw in a
   Put must be bound FOR THAT KEY by the ground truth on the line (H/B/R of that content, S for that key's hash, all
   computed by the harness with the library functions; verdict = repaired model = C02_accept_iff), and every value a
   getter returns must be the decoding of content bound to the requested key - whether it came from the network or
   from the node's own store.  The store is tracked from the implementation's own Puts. *)
let parse_puts (s : string) : (bytes * bytes) list =
  if s = "." then [] else
    List.map (fun kc -> match String.split_on_char ':' kc with [k; c] -> (unhx k, unhx c) | _ -> failwith "put") (String.split_on_char '+' s)

(* what a getter prints for content c decoded as type t (the same projection the harness applies to the returned value) *)
let retid_of tbl (t : int) (c : bytes) : string option =
  match List.assoc_opt (ub c) tbl with
  | None -> None
  | Some tr ->
    (match t with
     | 0 -> (match tr.th with HH (h, _) -> Some (hx h.h_rest) | _ -> None)
     | 1 -> (match tr.tb with Some (u, tx, w) -> Some (Printf.sprintf "%s,%s,%s" (hx u) (hx tx) (match w with None -> "n" | Some w -> hx w)) | None -> None)
     | _ -> (match tr.tr with Some r -> Some (hx r) | None -> None))

let bound_for tbl (src : bytes -> header option) (k : bytes) (c : bytes) : bool =
  List.mem_assoc (ub c) tbl && m_validate repaired tbl src k c = Ok ()

let hist_monitors tbl (ops : hop list) (impl_obs : string list) : string list =
  let store = ref [] in   (* (key, (content, bound at the time of the Put)) as implied by the implementation's Puts, newest first *)
  let fails = ref [] in
  let add f = fails := f :: !fails in
  (try
    List.iter2 (fun o ob ->
      (* ob = <o|e|p><retid>,<puts>   retid may contain commas: puts is the last comma field *)
      let i = String.rindex ob ',' in
      let head = String.sub ob 0 i and puts = parse_puts (String.sub ob (i + 1) (String.length ob - i - 1)) in
      let ret = String.sub head 1 (String.length head - 1) in
      let record src what (k, c) =
        let bnd = bound_for tbl src k c in
        if not bnd then add (what ^ " key=" ^ hx k ^ " content=" ^ (let h = hx c in if String.length h > 80 then String.sub h 0 80 ^ ".." else h));
        store := (ub k, (c, bnd)) :: !store in
      (match o with
       | HOffer its ->
         let src = src_of_items its in
         List.iter (fun (k, c) ->
           let offered = List.exists (fun it -> it.ikey = k && it.icontent = c) its in
           (* offered under that key but not bound: validation was skipped; not even offered under that key: the
              bytes of something else ended up under the key *)
           record src (if offered then "unvalidated-content-stored offer" else "stored-content-not-bound-to-its-key offer") (k, c)) puts;
         if head.[0] = 'p' then add "validate-contents-panics offer"
       | HGet (t, hash, remote, s) ->
         let key = b (t :: ub hash) in
         let src = fun _ -> s in
         (match List.assoc_opt (ub key) !store with
          | Some (c, bnd) ->
            (* served from the node's own store *)
            if head.[0] = 'o' then begin
              if not bnd then add ("returned-content-not-bound-to-its-key getter=" ^ string_of_int t ^ " key=" ^ hx key ^ " (served from the local store)");
              if retid_of tbl t c <> Some ret then add ("getter-returned-other-than-stored getter=" ^ string_of_int t ^ " key=" ^ hx key)
            end;
            List.iter (record src ("stored-content-not-bound-to-its-key getter=" ^ string_of_int t)) puts
          | None ->
            let bound = match remote with Some c -> bound_for tbl src key c | None -> false in
            if head.[0] = 'o' then begin
              if not bound then add ("unvalidated-content-returned getter=" ^ string_of_int t ^ " key=" ^ hx key)
              else (match remote with
                  | Some c when retid_of tbl t c <> Some ret -> add ("getter-returned-other-than-looked-up getter=" ^ string_of_int t ^ " key=" ^ hx key)
                  | _ -> ())
            end;
            List.iter (fun (k, c) ->
              let looked_up = k = key && Some c = remote in
              record src (if looked_up then "unvalidated-content-stored getter=" ^ string_of_int t
                          else "stored-content-not-bound-to-its-key getter=" ^ string_of_int t) (k, c)) puts;
            if head.[0] = 'e' && bound then
              (match t, remote with
               | 2, Some c when (find tbl c).tr = None -> ()    (* empty receipts that do not decode: nothing to return *)
               | _ -> add ("rejected-genuine-content getter=" ^ string_of_int t ^ " key=" ^ hx key)));
         if head.[0] = 'p' then add ("getter-panics getter=" ^ string_of_int t))) ops impl_obs
  with Invalid_argument _ -> add "observation-count-mismatch");
  List.rev !fails

(* elem = <items>^<extra keys>^<extra contents> *)
let parse_elem (s : string) : item list * bytes list * bytes list * (int list * truth) list =
  match String.split_on_char '^' s with
  | [its; xk; xc] ->
    let parsed = if its = "." then [] else List.map parse_item (String.split_on_char '+' its) in
    let l x = if x = "." then [] else List.map unhx (String.split_on_char '+' x) in
    (List.map fst parsed, l xk, l xc, List.map snd parsed)
  | _ -> failwith ("elem " ^ s)

let handle fields impl : string option * string list =
  match fields with
  | ["vc"; key; content; h; bd; r; s] ->
    let key = unhx key and content = unhx content in
    let tbl = [(ub content, parse_truth h bd r)] in
    let src = let sh = parse_S s in fun _ -> sh in
    let m = m_validate variant tbl src key content in
    (* the panic message is informative only *)
    let ms = if m = Panic && starts impl "panic" then impl else show_res m in
    (Some ms, vc_monitors tbl src key content impl)
  | ["seq"; key; sf; steps] ->
    (* consecutive validations under one key: each is judged on its own content only - whatever was validated before
       must not matter *)
    let key = unhx key in
    let src = let sh = parse_S sf in fun _ -> sh in
    let parsed = List.map (fun st -> match String.split_on_char '~' st with
        | [c; h; bd; r] -> let c' = unhx c in (c', (ub c', parse_truth h bd r)) | _ -> failwith "seq step") (split_on ';' steps) in
    let tbl = List.map snd parsed in
    let ms = List.map (fun (c, _) -> rc (m_validate variant tbl src key c)) parsed in
    let iobs = if starts impl "ok " then String.sub impl 3 (String.length impl - 3) else "" in
    let fails = List.concat (List.mapi (fun i (c, _) ->
        let io = if i < String.length iobs then (match iobs.[i] with 'o' -> "ok" | 'e' -> "err" | _ -> "panic") else "missing" in
        List.map (fun f -> f ^ " (step " ^ string_of_int i ^ " of a back-to-back sequence)") (vc_monitors tbl src key c io)) parsed) in
    (Some ("ok " ^ String.concat "" ms), fails)
  | ["orcraw"; _; _] -> (Some "err", if starts impl "err" then [] else ["oracle-accepted-non-hex-answer " ^ impl])
  | ["orc"; hash; served; h] | ["orcnet"; _; hash; served; h] ->
    let hash = unhx hash in
    let served' = if served = "n" then None else Some (unhx served) in
    let tbl = match served' with None -> [] | Some c -> [(ub c, parse_truth h "x" "x")] in
    let serve _ = served' in
    let m = oracle_get_header hdr_hash (dec_hwp tbl) (dec_header tbl) variant serve hash in
    let ms = match m with None -> "err" | Some hd -> "ok " ^ show_hdesc hd in
    (* observe_at: the header returned by the oracle for a requested hash must hash to it *)
    let mon =
      if starts impl "ok " then
        (let hd = parse_hdesc (String.sub impl 3 (String.length impl - 3)) in
         if ub hd.h_rest <> ub hash then ["oracle-returned-header-hash-mismatch requested=" ^ hx hash ^ " got=" ^ hx hd.h_rest] else [])
      else if starts impl "panic" then ["oracle-panics " ^ impl]
      else if starts impl "err" then
        (match oracle_get_header hdr_hash (dec_hwp tbl) (dec_header tbl) repaired serve hash with
         | Some _ -> ["oracle-rejected-genuine-header"] | None -> [])
      else [] in
    (Some ms, mon)
  | ["hist"; opsf] ->
    let parsed = List.map parse_op (split_on ';' opsf) in
    let ops = List.map fst parsed and tbl = List.concat (List.map snd parsed) in
    let (obs, _) = m_run variant tbl (List.map model_op ops) [] in
    let m = "ok " ^ String.concat ";" (List.map show_obs obs) in
    let impl_obs = if starts impl "ok " then split_on ';' (String.sub impl 3 (String.length impl - 3)) else [] in
    (Some m, hist_monitors tbl ops impl_obs)
  | ["gf"; t; hash; local; remote; verdict; gfail; pfail; tl; tr; s] ->
    let t = int_of_string t and hash = unhx hash in
    let opt x = if x = "n" then None else Some (unhx x) in
    let local = opt local and remote = opt remote in
    let tr3 x = match String.split_on_char '~' x with [h; bd; r] -> parse_truth h bd r | _ -> failwith "T" in
    let tbl = (match local with Some c -> [(ub c, tr3 tl)] | None -> []) @ (match remote with Some c -> [(ub c, tr3 tr)] | None -> []) in
    let src = let sh = parse_S s in fun _ -> sh in
    let validate var = match verdict with
      | "o" -> (fun _ _ -> Ok ()) | "e" -> (fun _ _ -> Err e_DECODE) | _ -> m_validate var tbl src in
    let gf = gfail = "1" and pf = pfail = "1" in
    let key = b (t :: ub hash) in
    let s0 = match local with Some c -> [(key, c)] | None -> [] in
    let lookup _ = remote in
    let sel : byte = Obj.magic t in
    let shown =
      match t with
      | 0 -> let ((r, _), p) = getter_g (validate variant) gf pf sel (header_of (dec_hwp tbl) (dec_header tbl)) lookup s0 hash in show_obs (ObsHeader (r, p))
      | 1 -> let ((r, _), p) = getter_g (validate variant) gf pf sel (dec_body tbl) lookup s0 hash in show_obs (ObsBody (r, p))
      | _ -> let ((r, _), p) = getter_g (validate variant) gf pf sel (dec_receipts tbl) lookup s0 hash in show_obs (ObsReceipts (r, p)) in
    (* monitors: whatever the faults, nothing is returned or stored that the validator did not accept for this key
       (with the real validator: that is not bound to the key); bytes injected into the local store are the
       harness's own fault injection and are not judged *)
    let fails = ref [] in
    let add f = fails := f :: !fails in
    (if starts impl "ok " then begin
       let ob = String.sub impl 3 (String.length impl - 3) in
       let i = String.rindex ob ',' in
       let head = String.sub ob 0 i and puts = parse_puts (String.sub ob (i + 1) (String.length ob - i - 1)) in
       let ret = String.sub head 1 (String.length head - 1) in
       let accepted c = List.mem_assoc (ub c) tbl && validate repaired key c = Ok () in
       let what = if verdict = "r" then "not-bound-to-its-key" else "the-validator-rejected" in
       if head.[0] = 'p' then add ("getter-panics getter=" ^ string_of_int t);
       if head.[0] = 'o' && gf then add ("getter-returned-despite-storage-read-failure getter=" ^ string_of_int t);
       if head.[0] = 'o' && not gf && local = None then begin
         (match remote with
          | Some c when accepted c ->
            if retid_of tbl t c <> Some ret then add ("getter-returned-other-than-looked-up getter=" ^ string_of_int t)
          | _ -> add ((if verdict = "r" then "unvalidated-content-returned" else "getter-returned-content-the-validator-rejected") ^ " getter=" ^ string_of_int t ^ " key=" ^ hx key))
       end;
       (match local with
        | Some c when head.[0] = 'o' && not gf && retid_of tbl t c <> Some ret -> add ("getter-returned-other-than-stored getter=" ^ string_of_int t)
        | _ -> ());
       List.iter (fun (k, c) ->
         if not (k = key && Some c = remote && local = None && accepted c) then
           add ("stored-content-" ^ what ^ " getter=" ^ string_of_int t ^ " key=" ^ hx k)) puts
     end else add ("unparsable-observation " ^ impl));
    (Some ("ok " ^ shown), List.rev !fails)
  | ["of"; verdict; gfail; pfail; pre; elem] ->
    let (items, xkeys, xcontents, tbl) = parse_elem elem in
    let src = src_of_items items in
    let validate var = match verdict with
      | "o" -> (fun _ _ -> Ok ()) | "e" -> (fun _ _ -> Err e_DECODE) | _ -> m_validate var tbl src in
    let keys = List.map (fun i -> i.ikey) items @ xkeys and contents = List.map (fun i -> i.icontent) items @ xcontents in
    let s0 = List.rev (parse_puts pre) in
    let ((r, _), p) = validate_contents_loop_g (validate variant) (gfail = "1") (pfail = "1") keys (Obj.magic Util.O) contents s0 [] in
    let fails = ref [] in
    let add f = fails := f :: !fails in
    (if starts impl "ok " then begin
       let ob = String.sub impl 3 (String.length impl - 3) in
       let i = String.rindex ob ',' in
       let head = String.sub ob 0 i and puts = parse_puts (String.sub ob (i + 1) (String.length ob - i - 1)) in
       if head.[0] = 'p' && List.length keys >= List.length contents then add "validate-contents-panics of";
       List.iter (fun (k, c) ->
         let offered = List.exists (fun it -> it.ikey = k && it.icontent = c) items in
         if not offered then add ("stored-content-not-bound-to-its-key of key=" ^ hx k)
         else if validate repaired k c <> Ok () then
           add ((if verdict = "r" then "unvalidated-content-stored" else "stored-content-the-validator-rejected") ^ " of key=" ^ hx k)) puts
     end else add ("unparsable-observation " ^ impl));
    (Some ("ok " ^ rc r ^ "," ^ show_puts p), List.rev !fails)
  | ["loop"; elemsf] ->
    (* the real processContentLoop: per element the Puts, and what the neighbour received through the loop's Gossip
       call (the whole offered batch when validateContents returned nil and there is content; "?" = the harness did
       not see it arrive in time - transport, tolerated) *)
    let elems = List.map parse_elem (split_on ';' elemsf) in
    let tbl = List.concat (List.map (fun (_, _, _, t) -> t) elems) in
    let impl_obs = if starts impl "ok " then split_on ';' (String.sub impl 3 (String.length impl - 3)) else [] in
    let store = ref [] in
    let fails = ref [] in
    let add f = fails := f :: !fails in
    let shown = List.mapi (fun idx (items, xkeys, xcontents, _) ->
      let src = src_of_items items in
      let keys = List.map (fun i -> i.ikey) items @ xkeys and contents = List.map (fun i -> i.icontent) items @ xcontents in
      let ((r, s'), p) = validate_contents_loop_g (m_validate variant tbl src) false false keys (Obj.magic Util.O) contents !store [] in
      store := s';
      let rec zip ks cs = match ks, cs with k :: ks', c :: cs' -> (k, c) :: zip ks' cs' | _ -> [] in
      let gossip = match r, contents with Ok _, _ :: _ -> show_puts (zip keys contents) | _ -> "." in
      let io = match List.nth_opt impl_obs idx with Some x -> x | None -> "" in
      (* implementation side: every Put bound for its key *)
      (match String.index_opt io ',' with
       | Some i ->
         let puts = parse_puts (String.sub io 0 i) in
         List.iter (fun (k, c) ->
           let offered = List.exists (fun it -> it.ikey = k && it.icontent = c) items in
           if not (bound_for tbl src k c) then
             add ((if offered then "unvalidated-content-stored" else "stored-content-not-bound-to-its-key") ^ " loop key=" ^ hx k)) puts
       | None -> add "observation-count-mismatch");
      let igossip = match String.index_opt io ',' with Some i -> String.sub io (i + 1) (String.length io - i - 1) | None -> "" in
      show_puts p ^ "," ^ (if igossip = "?" && gossip <> "." then "?" else gossip)) elems in
    (Some ("ok " ^ String.concat ";" shown), List.rev !fails)
  | ["drop"; _] ->
    (* the element arrives while all workers of the loop's pool are busy: the loop drops it (nothing validated,
       stored or gossiped) *)
    (Some "ok .,.", if impl <> "ok .,." then ["dropped-element-had-an-effect " ^ impl] else [])
  | _ -> (Some "driver: unknown line", [])

let () = Util.run handle
