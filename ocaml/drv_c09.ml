(* drv_c09.ml : model side of the C09 correspondence, and monitors over implementation observations *)
open C09_model
let b (l : int list) : byte list = Obj.magic l
let ub (l : byte list) : int list = Obj.magic l
let bl (l : int list list) : byte list list = Obj.magic l
let ubl (l : byte list list) : int list list = Obj.magic l
let n_ (k : int) : n = Obj.magic (Util.n_of_int k)
let int_n (x : n) : int = Util.int_of_n (Obj.magic x)
let nat_ (k : int) : nat = Obj.magic (Util.nat_of_int k)
let int_nat (x : nat) : int = Util.int_of_nat (Obj.magic x)
let vl (h : string) : n list = List.map n_ (Util.bytes_of_hex h)
let hex l = Util.hex_of_bytes l
let starts s p = String.length s >= String.length p && String.sub s 0 (String.length p) = p

let ints_s (l : int list) = match l with [] -> "." | _ -> String.concat "," (List.map string_of_int l)
let bools_of_s s = if s = "-" then [] else List.init (String.length s) (fun i -> s.[i] = '1')
let s_of_bools l = match l with [] -> "-" | _ -> String.concat "" (List.map (fun x -> if x then "1" else "0") l)

let field (obs : string) (k : string) : string =
  let parts = String.split_on_char ' ' obs in
  let pre = k ^ "=" in
  match List.find_opt (fun p -> starts p pre) parts with
  | Some p -> String.sub p (String.length pre) (String.length p - String.length pre)
  | None -> "?"

let entry kind pv = match kind with "missing" -> PvMissing | "malformed" -> PvMalformed | _ -> PvList (vl pv)
let version own kind pv : n res = fst (get_or_store (vl own) empty_cache (n_ 0) (entry kind pv))

(* ---- independent reading of a reply (not through the model): verdict list of an ACCEPT payload *)
let rec take k l = if k <= 0 then [] else match l with [] -> [] | x :: t -> x :: take (k - 1) t
let rec drop k l = if k <= 0 then l else match l with [] -> [] | _ :: t -> drop (k - 1) t
let bitlist_bools (body : int list) : bool list option =
  match List.rev body with
  | [] -> None
  | last :: _ when last = 0 -> None
  | last :: _ ->
    let msb = let r = ref 0 in for j = 0 to 7 do if last land (1 lsl j) <> 0 then r := j done; !r in
    let nbits = 8 * (List.length body - 1) + msb in
    Some (List.init nbits (fun i -> (List.nth body (i / 8)) land (1 lsl (i mod 8)) <> 0))
(* Some (cid, accepted flags per key) *)
let read_reply (v : int) (reply : int list) : (int * bool list) option =
  match reply with
  | 7 :: c1 :: c0 :: 6 :: 0 :: 0 :: 0 :: body ->
    let cid = c1 * 256 + c0 in
    if v = 0 then (match bitlist_bools body with Some bs -> Some (cid, bs) | None -> None)
    else Some (cid, List.map (fun c -> c = 0) body)
  | _ -> None

(* per-key flags: 1 in range, 2 stored, 4 in flight, 8 nil id *)
let flag_of (keys : int list list) (flags : string) (k : int list) : int =
  let rec go ks i = match ks with
    | [] -> 0
    | x :: r -> if x = k then int_of_string ("0x" ^ String.make 1 flags.[i]) else go r (i + 1) in
  go keys 0
let nodeview keys flags room : nodeview =
  let f bit = fun (k : byte list) -> (flag_of keys flags (ub k)) land bit <> 0 in
  { nv_nilid = f 8; nv_inrange = f 1; nv_stored = f 2; nv_inflight = f 4; nv_queue_room = room }

let show_offer = function
  | Ok r -> Printf.sprintf "ok reply=%s taken=%d" (hex (ub r.or_reply)) (if r.or_permit_taken then 1 else 0)
  | Err _ -> "err"
  | Panic -> "panic"

let verdict_monitors ~(v : int) ~(keys : int list list) ~(flags : string) ~(permit_free : bool) ~(taken : int option)
    (reply : int list) : string list =
  match read_reply v reply with
  | None -> ["accept-reply-unreadable " ^ hex reply]
  | Some (cid, acc) ->
    let nk = List.length keys in
    if List.length acc <> nk then [Printf.sprintf "accept-verdict-count keys=%d verdicts=%d" nk (List.length acc)]
    else begin
      let per_key = List.concat (List.mapi (fun i a ->
          if not a then [] else begin
            let f = flag_of keys flags (List.nth keys i) in
            (if f land 8 <> 0 then [Printf.sprintf "accepted-nil-id-key index=%d" i] else []) @
            (if f land 1 = 0 && f land 8 = 0 then [Printf.sprintf "accepted-out-of-range-key index=%d" i] else []) @
            (if f land 2 <> 0 then [Printf.sprintf "accepted-stored-key index=%d" i] else []) @
            (if v = 1 && f land 4 <> 0 then [Printf.sprintf "accepted-inflight-key-v1 index=%d" i] else [])
          end) acc) in
      let any = List.exists (fun a -> a) acc in
      per_key @
      (if any && not permit_free then [Printf.sprintf "accepted-without-permit-v%d reply=%s" v (hex reply)] else []) @
      (if cid <> 0 && not (any && permit_free) then [Printf.sprintf "connection-id-without-listener cid=%d" cid] else []) @
      (if any && permit_free && cid = 0 then ["accepted-without-connection-id"] else []) @
      (match taken with
       | Some t when any && permit_free && t <> 1 -> [Printf.sprintf "accepted-without-taking-a-slot taken=%d" t]
       | Some t when not (any && permit_free) && t <> 0 -> [Printf.sprintf "slot-taken-without-accepted-key taken=%d" t]
       | _ -> [])
    end

(* tampering with the verdicts of a reply, as the harness does *)
let tamper mode (v : int) (reply : int list) : int list =
  if mode = "none" || List.length reply < 8 then reply else begin
    let head = take 7 reply and body = drop 7 reply in
    if v = 1 then begin
      match mode with
      | "acceptall" -> head @ List.map (fun _ -> 0) body
      | _ -> let hit = ref false in head @ List.map (fun c -> if c = 0 && not !hit then (hit := true; 1) else c) body
    end else begin
      match bitlist_bools body with
      | None -> reply
      | Some bs ->
        let bs' = match mode with
          | "acceptall" -> List.map (fun _ -> true) bs
          | _ -> let hit = ref false in List.map (fun x -> if x && not !hit then (hit := true; false) else x) bs in
        head @ ub (bl_encode bs')
    end
  end

let count_items s = if s = "." then 0 else List.length (String.split_on_char ',' s)

let handle fields impl : string option * string list =
  match fields with
  | ["bl"; bs] ->
    let l = bools_of_s bs in
    let e = bl_encode l in
    (Some (Printf.sprintf "ok enc=%s len=%d idx=%s" (hex (ub e)) (int_nat (bl_len e)) (ints_s (List.map int_nat (bit_indices e)))), [])
  | ["blraw"; h] ->
    let raw = b (Util.bytes_of_hex h) in
    let n = int_nat (bl_len raw) in
    let at = List.init (n + 3) (fun i -> bit_at raw (nat_ i)) in
    (Some (Printf.sprintf "ok len=%d idx=%s at=%s" n (ints_s (List.map int_nat (bit_indices raw))) (s_of_bools at)), [])
  | ["acc"; v; h] ->
    let m = match parse_offer_resp (Ok (n_ (int_of_string v))) (b (Util.bytes_of_hex h)) with
      | Ok (((cid, body), klen), ixs) ->
        Printf.sprintf "ok cid=%s body=%s klen=%d idx=%s" (hex (ub cid)) (hex (ub body)) (int_nat klen) (ints_s (List.map int_nat ixs))
      | Err _ -> "err" | Panic -> "panic" in
    (Some m, if starts impl "panic" then ["accept-parse-panics " ^ impl] else [])
  | ["ho"; own; pvkind; pv; l; h; qcap; qfill; cid; keys; flags] ->
    let keys = Util.items_of_string keys in
    let permit_free = int_of_string h < int_of_string l in
    let room = int_of_string qfill < int_of_string qcap in
    let ver = version own pvkind pv in
    let m = show_offer (handle_offer ver (nodeview keys flags room) permit_free (n_ (int_of_string cid)) (bl keys)) in
    let mons =
      if starts impl "panic" then ["handle-offer-panics " ^ impl]
      else if starts impl "ok" then begin
        match ver with
        | Ok v when int_n v <= 1 ->
          let reply = Util.bytes_of_hex (field impl "reply") in
          let taken = int_of_string (field impl "taken") in
          verdict_monitors ~v:(int_n v) ~keys ~flags ~permit_free ~taken:(Some taken) reply
        | _ -> ["reply-without-supported-version " ^ impl]
      end else [] in
    (Some m, mons)
  | ["hoc"; nk; room; payload] ->
    let nk = int_of_string nk in
    let keys = List.init nk (fun i -> [i]) in
    let m = match handle_offered_contents (bl keys) (b (Util.bytes_of_hex payload)) (room = "true") with
      | Ok (Some (_, cs)) -> "ok enq=" ^ Util.string_of_items (ubl cs)
      | Ok None -> "ok dropped"
      | Err _ -> "err" | Panic -> "panic" in
    let mons =
      if starts impl "ok enq=" then begin
        let items = String.sub impl 7 (String.length impl - 7) in
        if count_items items <> nk then [Printf.sprintf "wrong-count-stream-enqueued keys=%d items=%d" nk (count_items items)] else []
      end else if starts impl "panic" then ["handle-offered-contents-panics " ^ impl] else [] in
    (Some m, mons)
  | ["po"; own; pvkind; pv; kind; nk; resp] ->
    let nk = int_of_string nk in
    let keys = List.init nk (fun i -> [0x70; i]) and contents = List.init nk (fun i -> [i]) in
    let req = match kind with
      | "transient" -> ReqTransient (List.combine (bl keys) (bl contents))
      | "trace" -> ReqTrace (b [0x70; 0], b [0])
      | _ -> ReqPersist (bl keys) in
    let m = match process_offer (version own pvkind pv) (fun _ -> None) (b (Util.bytes_of_hex resp)) req with
      | Ok (body, act) -> Printf.sprintf "ok keys=%s started=%d" (hex (ub body)) (match act with Some _ -> 1 | None -> 0)
      | Err _ -> "err" | Panic -> "panic" in
    (Some m, if starts impl "panic" then ["process-offer-panics " ^ impl] else [])
  | ["e2e"; ownO; ownR; mode; kind; keys; flags; contents] ->
    let keys = Util.items_of_string keys and contents = Util.items_of_string contents in
    let verR = negotiate (vl ownR) (vl ownO) and verO = negotiate (vl ownO) (vl ownR) in
    if not (starts impl "ok") then (Some "ok", []) else begin
      let ireply = Util.bytes_of_hex (field impl "reply") in
      let cid = match ireply with _ :: c1 :: c0 :: _ -> c1 * 256 + c0 | _ -> 0 in
      let v = match verR with Ok v -> int_n v | _ -> 99 in
      let nv = nodeview keys flags true in
      let lookup = fun (k : byte list) ->
        let rec go ks cs = match ks, cs with
          | x :: kr, c :: cr -> if x = ub k then Some (b c) else go kr cr
          | _ -> None in
        go keys contents in
      let req = if kind = "persist" then ReqPersist (bl keys) else ReqTransient (List.combine (bl keys) (bl contents)) in
      let model_enq, model_reply =
        match handle_offer verR nv true (n_ cid) (bl keys) with
        | Ok r ->
          let sent = tamper mode v (ub r.or_reply) in
          let enq =
            (match process_offer verO lookup (b sent) req, r.or_listen with
             | Ok (_, Some (dial, payload)), Some (lcid, akeys) when int_n dial = int_n lcid ->
               (match handle_offered_contents akeys payload true with
                | Ok (Some (ks, cs)) -> Util.string_of_items (ubl ks) ^ "/" ^ Util.string_of_items (ubl cs)
                | _ -> "none")
             | _ -> "none") in
          (enq, hex (ub r.or_reply))
        | _ -> ("none", "?") in
      let m = Printf.sprintf "ok reply=%s enq=%s" model_reply model_enq in
      (* monitors: specification computed from the flags only *)
      let acc_flags = List.map (fun k -> let f = flag_of keys flags k in
                                 f land 1 <> 0 && f land 2 = 0 && (v = 0 || f land 4 = 0)) keys in
      let rec sel fl l = match fl, l with f :: fr, x :: r -> if f then x :: sel fr r else sel fr r | _ -> [] in
      let spec_keys = sel acc_flags keys and spec_contents = sel acc_flags contents in
      let spec = Util.string_of_items spec_keys ^ "/" ^ Util.string_of_items spec_contents in
      let ienq = field impl "enq" in
      (* what the tampered reply makes the offerer send *)
      let sent_count = match read_reply v (tamper mode v ireply) with Some (_, a) -> List.length (List.filter (fun x -> x) a) | None -> -1 in
      let awaited = List.length spec_keys in
      let mons =
        verdict_monitors ~v ~keys ~flags ~permit_free:true ~taken:None ireply @
        (if ienq <> "none" && sent_count <> awaited then [Printf.sprintf "wrong-count-stream-enqueued awaited=%d sent=%d enq=%s" awaited sent_count ienq]
         else if ienq <> "none" && ienq <> spec then ["content-paired-with-wrong-key enq=" ^ ienq ^ " spec=" ^ spec]
         else if ienq = "none" && sent_count = awaited && awaited > 0 then ["accepted-content-not-delivered spec=" ^ spec]
         else []) in
      (Some m, mons)
    end
  | ["inflight2"; va; vb; k] ->
    let kk = b (Util.bytes_of_hex k) in
    let ev v keys = if v = "0" then EvOfferV0 keys else EvOffer keys in
    let st = rx_run false [ev va [kk]; EvGoroutineRuns (nat_ 0); ev vb [kk]] in
    let m = match st.rx_accepted with
      | [a2; a1] ->
        let o1 = if a1 <> [] then "A" else "D" in
        let o2 = if a2 <> [] then "A" else if vb = "0" then "D" else "P" in
        Printf.sprintf "ok o1=%s o2=%s d1=1" o1 o2
      | _ -> "panic" in
    let mons =
      if not (starts impl "ok") then ["inflight2-case-failed " ^ impl]
      else if vb = "1" && field impl "o1" = "A" && field impl "o2" = "A" then
        [Printf.sprintf "accepted-key-in-flight a version-1 OFFER accepted a key that a version-%s transfer from another peer is still bringing in" va]
      else [] in
    (Some m, mons)
  | ["shared"; ownR; keys; flagsA; flagsB; contents] ->
    let keys = Util.items_of_string keys and contents = Util.items_of_string contents in
    let verR = negotiate (vl ownR) (vl "0001") and verO = negotiate (vl "0001") (vl ownR) in
    let v = match verR with Ok v -> int_n v | _ -> 99 in
    (* every request is processed as a function of ITS OWN (keys, contents): the model runs the two peers independently *)
    let one flags =
      let nv = nodeview keys flags true in
      match handle_offer verR nv true (n_ 1) (bl keys) with
      | Ok r ->
        (match process_offer verO (fun _ -> None) r.or_reply (ReqTransient (List.combine (bl keys) (bl contents))), r.or_listen with
         | Ok (_, Some (_, payload)), Some (_, akeys) ->
           (match handle_offered_contents akeys payload true with
            | Ok (Some (ks, cs)) -> Util.string_of_items (ubl ks) ^ "/" ^ Util.string_of_items (ubl cs)
            | _ -> "none")
         | _ -> "none")
      | _ -> "none" in
    let m = Printf.sprintf "ok enqA=%s enqB=%s list=%s" (one flagsA) (one flagsB) (Util.string_of_items keys) in
    let spec flags =
      let acc = List.map (fun k -> let f = flag_of keys flags k in f land 1 <> 0 && f land 2 = 0 && (v = 0 || f land 4 = 0)) keys in
      let rec sel fl l = match fl, l with f :: fr, x :: r -> if f then x :: sel fr r else sel fr r | _ -> [] in
      if List.exists (fun x -> x) acc then Util.string_of_items (sel acc keys) ^ "/" ^ Util.string_of_items (sel acc contents) else "none" in
    let mons =
      if not (starts impl "ok") then ["shared-case-failed " ^ impl]
      else
        (if field impl "list" <> Util.string_of_items keys then
           ["shared-offer-list-changed-by-another-peer the content list shared by the requests of one gossip batch reads " ^ field impl "list"] else []) @
        (List.concat (List.map (fun (nm, fl) ->
             let e = field impl nm in
             if e <> "none" && e <> spec fl then [Printf.sprintf "content-paired-with-wrong-key %s=%s spec=%s" nm e (spec fl)]
             else if e = "none" && spec fl <> "none" then [Printf.sprintf "accepted-content-not-delivered %s spec=%s" nm (spec fl)]
             else []) [("enqA", flagsA); ("enqB", flagsB)])) in
    (Some m, mons)
  | ["inflightrl"; va; k] ->
    let kk = b (Util.bytes_of_hex k) in
    let first = if va = "0" then EvOfferV0 [kk] else EvOffer [kk] in
    let st = rx_run false [first; EvGoroutineRuns (nat_ 0); EvOfferNoSlot [kk]; EvOffer [kk]] in
    let m = match st.rx_accepted with
      | [a3; a2; a1] ->
        Printf.sprintf "ok o1=%s o2=%s o3=%s d1=1" (if a1 <> [] then "A" else "D") (if a2 <> [] then "A" else "D") (if a3 <> [] then "A" else "P")
      | _ -> "panic" in
    let mons =
      if not (starts impl "ok") then ["inflightrl-case-failed " ^ impl]
      else
        (if field impl "o1" = "A" && field impl "o2" = "A" then ["accepted-without-permit-v0 a version-0 OFFER was accepted although no inbound slot was free"] else []) @
        (if field impl "o1" = "A" && field impl "o3" = "A" then
           ["accepted-key-in-flight a version-1 OFFER accepted a key of a still running transfer after a rate-limited OFFER of that key"] else []) in
    (Some m, mons)
  | ["inflight3"; k; l] ->
    let kk = b (Util.bytes_of_hex k) and ll = b (Util.bytes_of_hex l) in
    let st = rx_run false [EvOffer [kk]; EvGoroutineRuns (nat_ 0); EvOffer [kk; ll]; EvGoroutineRuns (nat_ 1);
                           EvTransferEnds (nat_ 1); EvOffer [kk]; EvTransferEnds (nat_ 0); EvOffer [kk]] in
    (* rx_accepted: newest offer first *)
    let codes offered acc = String.concat "" (List.map (fun x -> if List.exists (fun a -> ub a = ub x) acc then "00" else "05") offered) in
    let m = match st.rx_accepted with
      | [a4; a3; a2; a1] ->
        Printf.sprintf "ok o1=%s o2=%s o3=%s o4=%s d1=1 d2=1" (codes [kk] a1) (codes [kk; ll] a2) (codes [kk] a3) (codes [kk] a4)
      | _ -> "panic" in
    let mons =
      if not (starts impl "ok") then ["inflight3-case-failed " ^ impl]
      else begin
        let o1 = field impl "o1" and o2 = field impl "o2" and o3 = field impl "o3" in
        (* O1 accepted K and its transfer is still running when O2 and O3 arrive: K must not be accepted by either *)
        (if o1 = "00" && String.length o2 >= 2 && String.sub o2 0 2 = "00" then
           ["accepted-key-in-flight second offer accepted the key of a running transfer: o2=" ^ o2] else []) @
        (if o1 = "00" && o3 = "00" then
           ["accepted-key-in-flight the key of a still running transfer was accepted again after an overlapping offer finished: o3=" ^ o3] else [])
      end in
    (Some m, mons)
  | ["race"; _] ->
    if not (starts impl "ok") then (None, ["race-case-failed " ^ impl]) else begin
      let second = Util.bytes_of_hex (field impl "second") in
      (* every outcome must be explained by some schedule of the model: each key either accepted again (goroutine not yet
         at cacheTransferringKeys) or InboundTransferInProgress *)
      let odd = List.filter (fun c -> c <> 0 && c <> 5) second in
      (None,
       (if odd <> [] then ["race-outcome-not-a-model-schedule second=" ^ hex second] else []) @
       (if List.exists (fun c -> c = 0) second then ["inflight-mark-async-double-accept second offer of the same keys answered " ^ hex second] else []))
    end
  | _ -> (Some "driver: unknown line", [])

let () = Util.run handle
