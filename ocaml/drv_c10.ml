(* drv_c10.ml : model side of the C10 correspondence (trace inclusion) and monitors over the implementation's log *)
open C10_model

let n_hex (s : string) : n = Obj.magic (Util.n_of_hex s)
let nat_ (k : int) : nat = Obj.magic (Util.nat_of_int k)
let int_z (x : z) : int = Util.int_of_z (Obj.magic x)

let split c s = if s = "." || s = "" then [] else String.split_on_char c s
let idxs s = List.map (fun x -> if x = "_" then -1 else int_of_string x) (split ',' s)
let show_idxs l = match l with [] -> "." | _ -> String.concat "," (List.map (fun v -> if v < 0 then "_" else string_of_int v) l)
let starts s p = String.length s >= String.length p && String.sub s 0 (String.length p) = p

(* ---- distance on the raw hex identifiers, independent of the model (for the monitors) ---- *)
let hexval c = match c with '0'..'9' -> Char.code c - 48 | 'a'..'f' -> Char.code c - 87 | _ -> 0
let xor_hex (a : string) (t : string) : string =
  String.init (String.length a) (fun i -> "0123456789abcdef".[(hexval a.[i]) lxor (hexval t.[i])])
(* equal length lowercase hex: string order = numeric order *)

type ev = S of int | E of int | T of int * bool | C

let parse_events s =
  List.map (fun e ->
    if e = "C" then C else
    let plus = e.[String.length e - 1] = '+' in
    let body = if plus then String.sub e 0 (String.length e - 1) else e in
    let k = int_of_string (String.sub body 1 (String.length body - 1)) in
    match e.[0] with 'S' -> S k | 'E' -> E k | 'T' -> T (k, plus) | _ -> failwith "event") (split ',' s)

(* ------------------------------------------------------------------ monitors on the implementation log *)
let lookup_monitors ~(ids : string array) ~(target : string) ~(table : int list) ~(answers : (int, int list) Hashtbl.t)
    ~(events : ev list) ~(result : int list) ~(seen_impl : int list) ~(undrained : int) : string list =
  let fails = ref [] in
  let fail k d = if not (List.exists (fun s -> starts s k) !fails) then fails := (k ^ " " ^ d) :: !fails in
  (* in flight, asked twice, self asked *)
  let infl = ref 0 and started = Hashtbl.create 64 in
  List.iter (function
    | S i ->
      incr infl;
      if !infl > 3 then fail "more-than-alpha-in-flight" (Printf.sprintf "%d queries in flight when %d started" !infl i);
      if Hashtbl.mem started i then fail "peer-asked-twice" (string_of_int i);
      Hashtbl.replace started i ();
      if i = 0 then fail "self-asked" "query function called for the local node"
    | E _ -> decr infl
    | T (i, success) ->
      (* lookup.query -> tab.trackRequest(n, success, r): success iff the reply had at least one entry (C10_query_success_flag) *)
      let r : n option list = match Hashtbl.find_opt answers i with
        | Some l -> List.map (fun _ -> None) l | None -> [] in
      let expect = track_success r in
      if success && not expect then fail "fruitless-query-reported-as-success" (Printf.sprintf "peer %d answered with no node, trackRequest got success=true" i)
      else if (not success) && expect then fail "fruitful-query-reported-as-failure" (Printf.sprintf "peer %d answered with nodes, trackRequest got success=false" i)
    | _ -> ()) events;
  (* shutdown waits for every query in flight (C10_cancel_drains / C10_finished: nothing is pending when run returns) *)
  if undrained > 0 then fail "lookup-did-not-drain-on-cancel" (Printf.sprintf "%d query functions still running when run() returned" undrained);
  let d i = if i >= 0 && i < Array.length ids then xor_hex ids.(i) target else "~" in
  (* result: sorted, duplicate-free, bounded *)
  let rec chk = function
    | a :: (b :: _ as r) ->
      if a = b then fail "result-duplicate" (string_of_int a)
      else if compare (d a) (d b) > 0 then fail "result-not-sorted" (Printf.sprintf "%d before %d" a b);
      chk r
    | _ -> () in
  chk result;
  let sorted_r = List.sort compare result in
  let rec dup = function a :: (b :: _ as r) -> if a = b then fail "result-duplicate" (string_of_int a); dup r | _ -> () in
  dup sorted_r;
  if List.length result > 16 then fail "result-too-long" (string_of_int (List.length result));
  (* no closer seen node omitted.  seen: what the lookup itself recorded; when the run was not cancelled every answer
     was processed, so also everything the log says it was told: the 16 closest table entries and every answer *)
  let cancelled = List.mem C events in
  let seen = Hashtbl.create 64 in
  List.iter (fun i -> Hashtbl.replace seen i ()) seen_impl;
  if not cancelled then begin
    let tb = List.sort (fun a b -> compare (d a) (d b)) table in
    List.iteri (fun k i -> if k < 16 then Hashtbl.replace seen i ()) tb;
    List.iter (function E i -> (match Hashtbl.find_opt answers i with
                                | Some l -> List.iter (fun j -> if j >= 0 then Hashtbl.replace seen j ()) l | None -> ())
                      | _ -> ()) events
  end;
  let inres = Hashtbl.create 32 in
  List.iter (fun i -> Hashtbl.replace inres i ()) result;
  let last = match List.rev result with x :: _ -> Some x | [] -> None in
  Hashtbl.iter (fun x () ->
    if not (Hashtbl.mem inres x) then
      match last with
      | None -> fail "closer-seen-node-omitted" (Printf.sprintf "%d seen, result empty" x)
      | Some l ->
        if List.length result < 16 then fail "closer-seen-node-omitted" (Printf.sprintf "%d seen, result has only %d" x (List.length result))
        else if compare (d x) (d l) < 0 then fail "closer-seen-node-omitted" (Printf.sprintf "%d is closer than returned %d" x l)) seen;
  (* every returned node was seen *)
  List.iter (fun i -> if not (Hashtbl.mem seen i) then fail "result-node-never-seen" (string_of_int i)) result;
  List.rev !fails

(* ------------------------------------------------------------------ trace inclusion *)
exception Found of string

let handle_lk fields impl =
  match fields with
  | [_; target; universe; table; answers; _closet; _policy] ->
    let idh = Array.of_list (split ',' universe) in
    let nn = Array.length idh in
    let ids = Array.map n_hex idh in
    let back = Hashtbl.create 256 in
    Array.iteri (fun i h -> Hashtbl.replace back h i) idh;
    let pad s = String.make (64 - String.length s) '0' ^ s in
    let to_idx (x : n) = match Hashtbl.find_opt back (pad (Util.hex_of_n (Obj.magic x))) with Some i -> i | None -> 999999 in
    let tgt = n_hex target in
    let key = xkey tgt in
    let tbl = idxs table in
    let ans_tbl : (int, int list) Hashtbl.t = Hashtbl.create 64 in
    List.iter (fun e ->
      match String.index_opt e ':' with
      | Some c ->
        let hd = String.sub e 0 c and body = String.sub e (c + 1) (String.length e - c - 1) in
        let i = int_of_string (String.sub hd 0 (String.length hd - 1)) in
        Hashtbl.replace ans_tbl i (idxs body)
      | None -> ()) (split ';' answers);
    let ans_of i : n option list =
      match Hashtbl.find_opt ans_tbl i with
      | Some l -> List.map (fun j -> if j < 0 then None else Some ids.(j)) l
      | None -> [] in
    if starts impl "err timeout" then
      (Some "ok (the model always terminates)", ["lookup-did-not-terminate " ^ impl])
    else if starts impl "panic" then
      (Some "ok (the model never panics)", ["lookup-goroutine-panics " ^ impl])
    else begin
      match String.split_on_char ' ' impl with
      | ["ok"; evs; closest; result; asked; seen; queries; undr] ->
        let events = parse_events evs in
        let posS = Array.make nn (-1) and posE = Array.make nn (-1) and posT = Array.make nn (-1) in
        let posC = ref (-1) in
        List.iteri (fun k e -> match e with
          | S i -> if i < nn && posS.(i) < 0 then posS.(i) <- k
          | E i -> if i < nn && posE.(i) < 0 then posE.(i) <- k
          | T (i, _) -> if i < nn && posT.(i) < 0 then posT.(i) <- k
          | C -> posC := k) events;
        let nS = List.length (List.filter (function S _ -> true | _ -> false) events) in
        let mons = lookup_monitors ~ids:idh ~target ~table:tbl ~answers:ans_tbl ~events ~result:(idxs result) ~seen_impl:(idxs seen) ~undrained:(int_of_string undr) in
        (* model's closest, printed the same way *)
        let tbl_n = List.map (fun i -> ids.(i)) tbl in
        let m_closest = match findnode_by_id key tbl_n bucket_size with
          | Ok l -> show_idxs (List.map to_idx l) | _ -> "panic" in
        let show (s : lk) =
          Printf.sprintf "ok %s %s %s %s %s %d %d" evs m_closest
            (show_idxs (List.map to_idx s.result))
            (show_idxs (List.filter (fun i -> i <> 0) (List.sort compare (List.map to_idx s.asked))))
            (show_idxs (List.sort compare (List.map to_idx s.seen)))
            (int_z s.queries) (List.length s.pending) in
        let first_fail = ref None in
        let budget = ref 400000 in
        let visited = Hashtbl.create 1024 in
        (* depth-first search over the model's runs; candidates in the order hinted by the T events *)
        let rec go (s : lk) (max_e : int) =
          decr budget;
          if !budget < 0 then () else
          match start_queries key tbl_n s with
          | Ok (s1, more) ->
            (* queries the model starts here must have been observed, and not before their cause was released *)
            let rec newq l k acc = if k = 0 then acc else match l with x :: r -> newq r (k - 1) (to_idx x :: acc) | [] -> acc in
            let fresh = newq s1.qlog (List.length s1.qlog - List.length s.qlog) [] in
            if List.exists (fun q -> q >= nn || posS.(q) < 0 || posS.(q) < max_e) fresh then begin
              if !first_fail = None then first_fail := Some ("model starts an unobserved query: " ^ show_idxs fresh ^ " after " ^ show s1)
            end else if not more then begin
              let o = show s1 in
              if o = impl && List.length s1.qlog = nS then raise (Found o)
              else if !first_fail = None then first_fail := Some o
            end else begin
              let sig_ = (max_e, List.sort compare (List.map to_idx s1.asked), List.sort compare (List.map to_idx s1.pending), s1.tpending <> None,
                          List.length s1.seen) in
              if Hashtbl.mem visited sig_ then () else begin
                Hashtbl.replace visited sig_ ();
                let cands =
                  (match s1.tpending with
                   | Some _ -> [(-1, CTable, max_e)]
                   | None ->
                     List.filter_map (fun p ->
                       let i = to_idx p in
                       if i < nn && posE.(i) >= 0 then Some ((if posT.(i) >= 0 then posT.(i) else posE.(i)), CReply p, max max_e posE.(i)) else None)
                       s1.pending)
                  @ (if !posC >= 0 then [(!posC, CCancel, max_e)] else []) in
                let cands = List.sort (fun (a, _, _) (b, _, _) -> compare a b) cands in
                List.iter (fun (_, c, me) ->
                  match apply_choice key (fun p -> ans_of (to_idx p)) s1 c with
                  | Ok s2 -> go s2 me
                  | Err _ -> if !first_fail = None then first_fail := Some "model: err"
                  | Panic -> if !first_fail = None then first_fail := Some "model: panic") cands
              end
            end
          | Err _ -> if !first_fail = None then first_fail := Some "model: err in start_queries"
          | Panic -> if !first_fail = None then first_fail := Some "model: panic in start_queries" in
        let verdict =
          try go (init ids.(0)) (-1);
            (match !first_fail with
             | Some o -> "no-model-run-matches" ^ (if !budget < 0 then "(search budget exhausted)" else "") ^ "; first candidate: " ^ o
             | None -> "no-model-run-matches")
          with Found o -> o in
        let verdict = if closest <> m_closest then "closest differs: model " ^ m_closest else verdict in
        ignore asked; ignore queries;
        (Some verdict, mons)
      | _ -> (Some "driver: cannot parse observable", [])
    end
  | _ -> (Some "driver: bad lk line", [])

let handle_push fields impl =
  match fields with
  | [_; target; mx; l] ->
    let key = xkey (n_hex target) in
    let items = List.map n_hex (split ',' l) in
    let pad s = String.make (64 - String.length s) '0' ^ s in
    (match push_all key [] items (nat_ (int_of_string mx)) with
     | Ok r -> (Some ("ok " ^ (match r with [] -> "." | _ -> String.concat "," (List.map (fun x -> pad (Util.hex_of_n (Obj.magic x))) r))), [])
     | Err _ -> (Some "err", [])
     | Panic -> (Some "panic", []))
  | _ -> (Some "driver: bad push line", [])

(* content lookup:
     cl <npeers> <answers> <table>:<delays> <kseed> <target> <ids> <scan> | ok <events> <outcome>
   TRACE level: the lookup underneath ContentLookup must be a run of the model (same search as for node lookups, with
   ans p = the closer nodes p returns, nothing for content / errors): every peer the model queries was queried (has a
   T event), no query was observed (S) before the answer (A) that caused it, the set of queried peers is exactly the
   model's, cancellation only once a content holder has been queried, never in a not-found run.
   OUTCOME level only: which of several content holders wins (the CAS order is not observable), and found / not-found
   = the model's cwork fold over the queried peers. *)
let handle_cl fields impl =
  match fields with
  | [_; _n; answers; _sched; _kseed; target; universe; scan] ->
    let ans = Array.of_list ("" :: split ';' answers) in
    let np = Array.length ans in
    let is_content i = i >= 1 && i < np && starts ans.(i) "c" in
    let content_of i = String.sub ans.(i) 1 (String.length ans.(i) - 1) in
    let idh = Array.of_list (split ',' universe) in
    let nn = Array.length idh in
    let ids = Array.map n_hex idh in
    let back = Hashtbl.create 64 in
    Array.iteri (fun i h -> Hashtbl.replace back h i) idh;
    let pad s = String.make (64 - String.length s) '0' ^ s in
    let to_idx (x : n) = match Hashtbl.find_opt back (pad (Util.hex_of_n (Obj.magic x))) with Some i -> i | None -> 999999 in
    let key = xkey (n_hex target) in
    let tbl_n = List.map (fun i -> ids.(i)) (idxs scan) in
    let ans_of i : n option list =
      if i >= 1 && i < np && starts ans.(i) "e" then
        List.filter_map (fun j -> if j >= 0 && j < nn then Some (Some ids.(j)) else None) (idxs (String.sub ans.(i) 1 (String.length ans.(i) - 1)))
      else [] in
    if starts impl "err timeout" then (Some "ok", ["lookup-did-not-terminate content-lookup " ^ impl]) else
    if starts impl "panic" then (Some "ok", ["lookup-goroutine-panics content-lookup " ^ impl]) else
    (match String.split_on_char ' ' impl with
     | ["ok"; evs; outcome; undr] ->
       let events = List.map (fun e ->
         let e = if e.[String.length e - 1] = '+' then String.sub e 0 (String.length e - 1) else e in
         let k = int_of_string (String.sub e 1 (String.length e - 1)) in (e.[0], k)) (split ',' evs) in
       let posS = Array.make nn (-1) and posA = Array.make nn (-1) and posT = Array.make nn (-1) in
       List.iteri (fun k (c, i) -> if i >= 0 && i < nn then
         (match c with 'S' -> if posS.(i) < 0 then posS.(i) <- k | 'A' -> if posA.(i) < 0 then posA.(i) <- k
                     | 'T' -> if posT.(i) < 0 then posT.(i) <- k | _ -> ())) events;
       let of_kind c = List.filter_map (fun (c', i) -> if c' = c then Some i else None) events in
       let st = of_kind 'S' and answered = of_kind 'A' and queried = of_kind 'T' in
       (* ---- monitors on the implementation's log ---- *)
       let mons = ref [] in
       let add m = if not (List.mem m !mons) then mons := m :: !mons in
       let has_dup l = List.length (List.sort_uniq compare l) <> List.length l in
       if int_of_string undr > 0 then add ("lookup-did-not-drain-on-cancel content-lookup: " ^ undr ^ " peers had not answered when ContentLookup returned");
       List.iter (fun e ->
         if e.[0] = 'T' then begin
           let plus = e.[String.length e - 1] = '+' in
           let body = if plus then String.sub e 1 (String.length e - 2) else String.sub e 1 (String.length e - 1) in
           let i = int_of_string body in
           let r : n option list = List.map (fun _ -> None) (ans_of i) in
           if plus && not (track_success r) then add (Printf.sprintf "fruitless-query-reported-as-success content-lookup peer %d" i)
           else if (not plus) && track_success r then add (Printf.sprintf "fruitful-query-reported-as-failure content-lookup peer %d" i)
         end) (split ',' evs);
       if has_dup st || has_dup queried then add "peer-asked-twice content-lookup";
       if List.mem 0 st || List.mem 0 queried then add "self-asked content-lookup";
       let infl = ref 0 in
       List.iter (fun (c, _) -> (match c with 'S' -> incr infl | 'A' -> decr infl | _ -> ());
                   if !infl > 3 then add "more-than-alpha-in-flight content-lookup") events;
       let supplied = List.filter_map (fun i -> if is_content i then Some (content_of i) else None) answered in
       let found_c = if starts outcome "found:" then Some (String.sub outcome 6 (String.length outcome - 6)) else None in
       (match found_c with
        | Some c -> if not (List.mem c supplied) then add ("content-not-from-a-peer returned " ^ c)
        | None -> if supplied <> [] then add "content-missed a queried peer answered with content, lookup says not found");
       (* ---- trace inclusion ---- *)
       let nT = List.length (List.sort_uniq compare queried) in
       let first_fail = ref None in
       let note s = if !first_fail = None then first_fail := Some s in
       let budget = ref 200000 in
       let visited = Hashtbl.create 256 in
       let terminal (s : lk) =
         let q = List.map to_idx s.qlog in
         if List.sort compare q <> List.sort_uniq compare queried then note ("model queried " ^ show_idxs (List.rev q))
         else begin
           (* found / not found: cwork over the queried peers (all workers have returned when ContentLookup returns) *)
           let cans (p : n) : canswer =
             let i = to_idx p in
             if is_content i then AContent (Obj.magic (Util.bytes_of_hex (content_of i))) else AError in
           let order = List.filter (fun i -> List.mem i q) queried in
           let fin = List.fold_left (fun c i -> cwork cans c ids.(i)) (cinit ids.(0)) order in
           let holders = List.filter_map (fun i -> if is_content i then Some (content_of i) else None) q in
           match content_result fin, found_c with
           | None, None -> raise (Found (Printf.sprintf "ok %s %s 0" evs outcome))
           | Some _, Some c when List.mem c holders -> raise (Found (Printf.sprintf "ok %s %s 0" evs outcome))
           | Some _, _ -> note ("ok " ^ evs ^ " found:<one-of-the-queried-holders>")
           | None, Some _ -> note ("ok " ^ evs ^ " notfound")
         end in
       let rec go (s : lk) (max_a : int) =
         decr budget;
         if !budget < 0 then () else
         match start_queries key tbl_n s with
         | Ok (s1, more) ->
           let rec newq l k acc = if k = 0 then acc else match l with x :: r -> newq r (k - 1) (to_idx x :: acc) | [] -> acc in
           let fresh = newq s1.qlog (List.length s1.qlog - List.length s.qlog) [] in
           if List.exists (fun q -> q >= nn || posT.(q) < 0 || (posS.(q) >= 0 && posS.(q) < max_a)) fresh then
             note ("model starts an unobserved or too early query: " ^ show_idxs fresh)
           else if not more then terminal s1
           else begin
             let sig_ = (max_a, List.sort compare (List.map to_idx s1.asked), List.sort compare (List.map to_idx s1.pending),
                         s1.tpending <> None, List.length s1.seen) in
             if not (Hashtbl.mem visited sig_) then begin
               Hashtbl.replace visited sig_ ();
               let holder_queried = List.exists (fun p -> is_content (to_idx p)) s1.qlog in
               let cands =
                 (match s1.tpending with
                  | Some _ -> [(-1, CTable, max_a)]
                  | None -> List.map (fun p -> let i = to_idx p in (posT.(i), CReply p, max max_a posA.(i))) s1.pending)
                 @ (if holder_queried && found_c <> None then [(max_int, CCancel, max_a)] else []) in
               let cands = List.sort (fun (a, _, _) (b, _, _) -> compare a b) cands in
               List.iter (fun (_, c, me) ->
                 match apply_choice key (fun p -> ans_of (to_idx p)) s1 c with
                 | Ok s2 -> go s2 me
                 | _ -> note "model: err/panic") cands
             end
           end
         | _ -> note "model: err/panic in start_queries" in
       let verdict =
         try go (init ids.(0)) (-1);
           ignore nT;
           "no-model-run-matches" ^ (if !budget < 0 then "(search budget exhausted)" else "") ^
           (match !first_fail with Some o -> "; first candidate: " ^ o | None -> "")
         with Found o -> o in
       (Some verdict, List.rev !mons)
     | _ -> (Some "driver: cannot parse cl observable", []))
  | _ -> (Some "driver: bad cl line", [])

(* live node lookup over loopback (real lookupWorker / findNodes / handleFindNodes):
     ll <mode> <target> <kseed> <tables> <dead> <ids> | ok <events> <result> <undrained>
   The expected FINDNODES answer of a listening node q is computed here from its (fixed) table: the entries whose log
   distance from q is one of lookup_distances target q (model), plus q itself for distance 0; the reply the worker hands
   to the lookup is the model's lookup_worker_reply of that answer (C10_worker_reply: never the local node, <= 32).
   With these answers the run must be a run of the lookup model (same search as for cl lines) with exactly this result. *)
let handle_ll fields impl =
  match fields with
  | [_; mode; target; _kseed; tables; dead; universe] ->
    if impl = "unobserved" then (None, []) else
    if starts impl "err timeout" then (Some "ok", ["lookup-did-not-terminate live-lookup " ^ impl]) else
    if starts impl "panic" then (Some "ok", ["lookup-goroutine-panics live-lookup " ^ impl]) else
    let idh = Array.of_list (split ',' universe) in
    let nn = Array.length idh in
    let ids = Array.map n_hex idh in
    let back = Hashtbl.create 64 in
    Array.iteri (fun i h -> Hashtbl.replace back h i) idh;
    let pad s = String.make (64 - String.length s) '0' ^ s in
    let to_idx (x : n) = match Hashtbl.find_opt back (pad (Util.hex_of_n (Obj.magic x))) with Some i -> i | None -> 999999 in
    let tabs = Array.make nn [] in
    List.iter (fun e -> match String.index_opt e ':' with
      | Some c -> let i = int_of_string (String.sub e 0 c) in
        if i < nn then tabs.(i) <- List.filter (fun j -> j >= 0 && j < nn) (idxs (String.sub e (c + 1) (String.length e - c - 1)))
      | None -> ()) (split ';' tables);
    let is_dead = Array.make nn false in
    List.iter (fun i -> if i >= 0 && i < nn then is_dead.(i) <- true) (idxs dead);
    (match String.split_on_char ' ' impl with
     | ["ok"; evs; result; undr] ->
       let result = idxs result in
       (* events *)
       let parsed = List.map (fun e ->
         let c = e.[0] in
         let body = String.sub e 1 (String.length e - 1) in
         let body, cnt = match String.index_opt body ':' with
           | Some k -> String.sub body 0 k, int_of_string (String.sub body (k + 1) (String.length body - k - 1))
           | None -> body, -1 in
         let plus = String.length body > 0 && body.[String.length body - 1] = '+' in
         let body = if plus then String.sub body 0 (String.length body - 1) else body in
         (c, int_of_string body, plus, cnt)) (split ',' evs) in
       let posS = Array.make nn (-1) and posA = Array.make nn (-1) and posT = Array.make nn (-1) in
       List.iteri (fun k (c, i, _, _) -> if i >= 0 && i < nn then
         (match c with 'S' -> if posS.(i) < 0 then posS.(i) <- k | 'A' -> if posA.(i) < 0 then posA.(i) <- k
                     | 'T' -> if posT.(i) < 0 then posT.(i) <- k | _ -> ())) parsed;
       let of_kind c = List.filter_map (fun (c', i, _, _) -> if c' = c then Some i else None) parsed in
       let st = of_kind 'S' and queried = of_kind 'T' in
       let mons = ref [] in
       let add m = if not (List.mem m !mons) then mons := m :: !mons in
       let has_dup l = List.length (List.sort_uniq compare l) <> List.length l in
       if has_dup st || has_dup queried then add "peer-asked-twice live-lookup";
       if List.mem 0 st || List.mem 0 queried then add "self-asked live-lookup";
       let infl = ref 0 in
       List.iter (fun (c, _, _, _) -> (match c with 'S' -> incr infl | 'A' -> decr infl | _ -> ());
                   if !infl > 3 then add "more-than-alpha-in-flight live-lookup") parsed;
       if int_of_string undr > 0 then add ("lookup-did-not-drain-on-cancel live-lookup " ^ undr);
       List.iter (fun (c, i, plus, cnt) -> if c = 'T' then begin
           if cnt > 32 then add (Printf.sprintf "worker-reply-exceeds-limit peer %d handed %d nodes to the lookup" i cnt);
           if plus && cnt = 0 then add (Printf.sprintf "fruitless-query-reported-as-success live-lookup peer %d" i)
           else if (not plus) && cnt > 0 then add (Printf.sprintf "fruitful-query-reported-as-failure live-lookup peer %d" i)
         end) parsed;
       if List.mem 0 result then add "local-node-in-result live-lookup";
       if has_dup result then add "result-duplicate live-lookup";
       if List.length result > 16 then add ("result-too-long live-lookup " ^ string_of_int (List.length result));
       if mode = "r" then (Some impl, List.rev !mons) else begin
         let tgt = n_hex target in
         let key = xkey tgt in
         let d i = if i >= 0 && i < nn then xor_hex idh.(i) target else "~" in
         let rec chk = function a :: (b :: _ as r) -> if compare (d a) (d b) > 0 then add (Printf.sprintf "result-not-sorted live-lookup %d before %d" a b); chk r | _ -> () in
         chk result;
         (* what the worker hands to the lookup for peer q *)
         let ans_tbl = Hashtbl.create 16 in
         let ans_of q : n option list =
           match Hashtbl.find_opt ans_tbl q with Some l -> l | None ->
             let l =
               if q < 0 || q >= nn || is_dead.(q) then []
               else begin
                 let dists = lookup_distances tgt ids.(q) in
                 let at n = List.mem (logdist ids.(q) ids.(n)) dists in
                 let r = (if at q then [ids.(q)] else []) @ List.filter_map (fun n -> if at n then Some ids.(n) else None) tabs.(q) in
                 match lookup_worker_reply key ids.(0) r with Ok l -> List.map (fun x -> Some x) l | _ -> []
               end in
             Hashtbl.replace ans_tbl q l; l in
         (* closest seen: the asker's table and every delivered reply *)
         let seen = Hashtbl.create 16 in
         List.iter (fun i -> Hashtbl.replace seen i ()) tabs.(0);
         List.iter (fun q -> List.iter (function Some x -> Hashtbl.replace seen (to_idx x) () | None -> ()) (ans_of q)) queried;
         let last = match List.rev result with x :: _ -> Some x | [] -> None in
         Hashtbl.iter (fun x () -> if not (List.mem x result) then
           match last with
           | Some l when List.length result >= 16 -> if compare (d x) (d l) < 0 then add (Printf.sprintf "closer-seen-node-omitted live-lookup %d" x)
           | _ -> add (Printf.sprintf "closer-seen-node-omitted live-lookup %d reachable, result has only %d" x (List.length result))) seen;
         (* reply sizes *)
         let size_diff = List.filter_map (fun (c, i, _, cnt) ->
           if c = 'T' && cnt >= 0 && cnt <> List.length (ans_of i) then Some (Printf.sprintf "%d:%d(model %d)" i cnt (List.length (ans_of i))) else None) parsed in
         let tbl_n = List.map (fun i -> ids.(i)) tabs.(0) in
         let first_fail = ref None in
         let note s = if !first_fail = None then first_fail := Some s in
         let budget = ref 100000 in
         let visited = Hashtbl.create 256 in
         let rec go (s : lk) (max_a : int) =
           decr budget;
           if !budget < 0 then () else
           match start_queries key tbl_n s with
           | Ok (s1, more) ->
             let rec newq l k acc = if k = 0 then acc else match l with x :: r -> newq r (k - 1) (to_idx x :: acc) | [] -> acc in
             let fresh = newq s1.qlog (List.length s1.qlog - List.length s.qlog) [] in
             if List.exists (fun q -> q >= nn || posT.(q) < 0 || (posS.(q) >= 0 && posS.(q) < max_a)) fresh then
               note ("model starts an unobserved or too early query: " ^ show_idxs fresh)
             else if not more then begin
               let q = List.map to_idx s1.qlog in
               let r = List.map to_idx s1.result in
               if List.sort compare q = List.sort_uniq compare queried && r = result && List.length s1.pending = int_of_string undr
               then raise (Found impl)
               else note (Printf.sprintf "ok %s %s %d (model queried %s)" evs (show_idxs r) (List.length s1.pending) (show_idxs (List.rev q)))
             end else begin
               let sig_ = (max_a, List.sort compare (List.map to_idx s1.asked), List.sort compare (List.map to_idx s1.pending),
                           s1.tpending <> None, List.length s1.seen) in
               if not (Hashtbl.mem visited sig_) then begin
                 Hashtbl.replace visited sig_ ();
                 let cands = match s1.tpending with
                   | Some _ -> [(-1, CTable, max_a)]
                   | None -> List.map (fun p -> let i = to_idx p in (posT.(i), CReply p, max max_a posA.(i))) s1.pending in
                 let cands = List.sort (fun (a, _, _) (b, _, _) -> compare a b) cands in
                 List.iter (fun (_, c, me) ->
                   match apply_choice key (fun p -> ans_of (to_idx p)) s1 c with
                   | Ok s2 -> go s2 me
                   | _ -> note "model: err/panic") cands
               end
             end
           | _ -> note "model: err/panic in start_queries" in
         let verdict =
           if size_diff <> [] then "worker reply sizes differ: " ^ String.concat "," size_diff else
           try go (init ids.(0)) (-1);
             "no-model-run-matches" ^ (if !budget < 0 then "(search budget exhausted)" else "") ^
             (match !first_fail with Some o -> "; first candidate: " ^ o | None -> "")
           with Found o -> o in
         (Some verdict, List.rev !mons)
       end
     | _ -> (Some "driver: cannot parse ll observable", []))
  | _ -> (Some "driver: bad ll line", [])

(* content lookup with a uTP transfer:  cu <size> <hops> <kseed> <digest-of-the-stored-value> | ok <served> <outcome>
   Outcome level (C10_content_first_wins): the holder was queried (it served a talk request) and supplied the value, so
   the lookup has to return exactly those bytes. *)
let handle_cu fields impl =
  match fields with
  | [_; _size; _hops; _kseed; digest] ->
    if impl = "unobserved" then (None, []) else
    if starts impl "panic" then (Some "ok", ["lookup-goroutine-panics utp-content-lookup " ^ impl]) else
    (match String.split_on_char ' ' impl with
     | ["ok"; served; outcome] ->
       if int_of_string served = 0 then (Some impl, [])   (* the holder was never reached: nothing to conclude *)
       else if outcome = "found:" ^ digest then (Some impl, [])
       else (Some ("ok " ^ served ^ " found:" ^ digest),
             ["content-missed utp-content-lookup: the queried holder supplied " ^ digest ^ " over uTP, lookup says " ^ outcome])
     | _ -> (Some "driver: cannot parse cu observable", []))
  | _ -> (Some "driver: bad cu line", [])

let handle fields impl : string option * string list =
  match fields with
  | "lk" :: _ -> handle_lk fields impl
  | "push" :: _ -> handle_push fields impl
  | "cl" :: _ -> handle_cl fields impl
  | "ll" :: _ -> handle_ll fields impl
  | "cu" :: _ -> handle_cu fields impl
  | _ -> (Some "driver: unknown line", [])

let () = Util.run handle
