(* drv_c12.ml : model side of the C12 correspondence (light client), and monitors over implementation observations.
   Line formats: see harness/c12.go. *)
open C12_model
let b (l : int list) : byte list = Obj.magic l
let ub (l : byte list) : int list = Obj.magic l
let n_ (k : int) : n = Obj.magic (Util.n_of_int k)
let int_n (x : n) : int = Util.int_of_n (Obj.magic x)
let hexb s = b (Util.bytes_of_hex s)
let bhex l = Util.hex_of_bytes (ub l)
let split c s = String.split_on_char c s
let starts s p = String.length s >= String.length p && String.sub s 0 (String.length p) = p
let contains s c = String.contains s c

(* ---- parsing *)
let parse_hdr s = match split ':' s with
  | [sl; pr; pa; st; bo] -> { h_slot = n_ (int_of_string sl); h_proposer = n_ (int_of_string pr); h_parent = hexb pa; h_state = hexb st; h_body = hexb bo }
  | _ -> failwith "hdr"
let parse_key t = match t with "i" -> PkIdentity | "x" -> PkInvalid | _ -> PkValid (n_ (int_of_string t))
let parse_comm s = match split ':' s with
  | [root; keys] -> { c_keys = (if keys = "_" then [] else List.map parse_key (split '.' keys)); c_root = hexb root }
  | _ -> failwith "comm"
let parse_comms s = Array.of_list (List.map parse_comm (split ',' s))
let parse_branch s = if s = "-" then None else Some (List.map hexb (split '/' s))
let bit_at (bits : int list) i = match List.nth_opt bits (i / 8) with Some v -> (v lsr (i mod 8)) land 1 = 1 | None -> false
(* the signers of  s:<msg>:<committee>:<bits> : the valid keys of the committee at the set bits *)
let signers_of (c : committee) (bits : int list) : n list =
  let rec go i ks acc = match ks with
    | [] -> List.rev acc
    | k :: r -> if i >= 512 then List.rev acc else
        go (i + 1) r (if bit_at bits i then (match k with PkValid id -> id :: acc | _ -> acc) else acc) in
  go 0 c.c_keys []
let parse_sig comms s =
  if s = "g0" then SigGarbage false else if s = "g1" then SigGarbage true else
  match split ':' s with
  | ["s"; msg; ci; bits] -> SigOf (signers_of comms.(int_of_string ci) (Util.bytes_of_hex bits), hexb msg)
  | _ -> failwith "sig"
let popcount (bits : int list) = let c = ref 0 in for i = 0 to 511 do if bit_at bits i then incr c done; !c

(* conv: the model's converter applied to the wire object (Ok u for a hand-built GenericUpdate) *)
(* boot: a bootstrap() step on the same client: (checkpoint, data, now, max_age, strict) *)
type pstep = { force : bool; mode : string; conv : update res; now : n; fork : byte list; nbits : int;
               boot : (byte list * bootstrap_data * n * n * bool) option }
let fork_of = function 'a' -> WAltair | 'c' -> WCapella | 'd' -> WDeneb | 'e' -> WElectra | _ -> WOther
let parse_step comms s = match split ',' s with
  | ["B"; now; checkpoint; hdr; exec_root; exec_br_root; comm; branch; max_age; strict] ->
    let bd = { b_beacon = parse_hdr hdr; b_exec_root = hexb exec_root; b_exec_branch_root = hexb exec_br_root;
               b_committee = comms.(int_of_string comm); b_branch = (match parse_branch branch with Some l -> l | None -> []) } in
    { force = false; mode = "B"; conv = Err (n_ 0); now = n_ (int_of_string now); fork = []; nbits = 512;
      boot = Some (hexb checkpoint, bd, n_ (int_of_string now), n_ (int_of_string max_age), strict = "1") }
  | [mode; now; fork; att; nx; nbr; fin; fbr; bits; sg; sigslot] ->
    let u = { u_attested = parse_hdr att;
              u_next = (if nx = "-" then None else Some comms.(int_of_string nx)); u_next_branch = parse_branch nbr;
              u_fin = (if fin = "-" then None else Some (parse_hdr fin)); u_fin_branch = parse_branch fbr;
              u_bits = hexb bits; u_sig = parse_sig comms sg; u_sigslot = n_ (int_of_string sigslot) } in
    (* wire objects go through the model's converter of their entry point and fork container type *)
    let m = Char.uppercase_ascii mode.[0] in
    let wf = if String.length mode > 1 then fork_of mode.[1] else WOther in
    let conv = match m, u.u_next, u.u_next_branch, u.u_fin, u.u_fin_branch with
      | 'U', Some nc, Some nb, Some fh, Some fb -> from_light_client_update wf u.u_attested nc nb fh fb u.u_bits u.u_sig u.u_sigslot
      | 'F', None, None, Some fh, Some fb -> from_light_client_finality_update wf u.u_attested fh fb u.u_bits u.u_sig u.u_sigslot
      | 'O', None, None, None, None -> from_light_client_optimistic_update wf u.u_attested u.u_bits u.u_sig u.u_sigslot
      | 'G', _, _, _, _ -> Ok u
      | _ -> failwith "wire step whose fields do not fit its container" in
    { force = (mode.[0] <> m); mode; conv; now = n_ (int_of_string now); fork = hexb fork; nbits = popcount (Util.bytes_of_hex bits); boot = None }
  | _ -> failwith "step"

(* which of the four options a converted update carries, and the branch lengths *)
let shape_of (c : update res) = match c with
  | Ok u ->
    let part some_c some_b tag =
      let a = (match some_c with Some _ -> tag | None -> "") ^ (match some_b with Some l -> Printf.sprintf "b%d" (List.length l) | None -> "") in
      if a = "" then "-" else a in
    part u.u_next u.u_next_branch "c" ^ "." ^ part u.u_fin u.u_fin_branch "h"
  | Err _ -> "err"
  | Panic -> "panic"
(* what the property expects of each wire entry point (header and branch travel together, full lengths) *)
let expected_shape mode =
  if String.length mode > 1 && mode.[1] = 'e' then Some "err" else
  match Char.uppercase_ascii mode.[0] with
  | 'U' -> Some "cb5.hb6" | 'F' -> Some "-.hb6" | 'O' -> Some "-.-" | _ -> None

(* ---- model digests, header roots memoised (real SHA-256 in extracted Gallina is the cost centre) *)
let htr_memo : (header, string) Hashtbl.t = Hashtbl.create 64
let hroot h = match Hashtbl.find_opt htr_memo h with
  | Some r -> r
  | None -> let r = bhex (htr_header h) in Hashtbl.replace htr_memo h r; r
let digest (s : store) =
  Printf.sprintf "%d:%s:%d:%s:%s:%s:%d:%d" (int_n s.s_fin.h_slot) (hroot s.s_fin) (int_n s.s_opt.h_slot) (hroot s.s_opt)
    (bhex s.s_cur.c_root) (match s.s_next with Some c -> bhex c.c_root | None -> "-") (int_n s.s_prev_max) (int_n s.s_cur_max)
let show_err e = let k = int_n e in if k = 9 then "err8" else Printf.sprintf "err%d" k

(* ---- monitors on implementation observations *)
type dg = { fslot : int; froot : string; oslot : int; oroot : string; cur : string; next : string; pmax : int; cmax : int }
let parse_digest s = match split ':' s with
  | [a; b; c; d; e; f; g; h] -> Some { fslot = int_of_string a; froot = b; oslot = int_of_string c; oroot = d; cur = e; next = f; pmax = int_of_string g; cmax = int_of_string h }
  | _ -> None
let flag_keys = [ 'P', "verified-without-participation"; 'F', "verified-future-slot"; 'O', "verified-unordered-slots";
                  'W', "verified-wrong-period"; 'I', "verified-irrelevant-update"; 'B', "verified-bad-finality-branch";
                  'C', "verified-bad-committee-branch"; 'S', "verified-bad-signature"; 'K', "verified-wrong-signer-set";
                  'T', "verified-unknown-wire-type" ]

(* Monitors derived from the proved characterisation of acceptance (C12_verify_sound + C12_verify_complete: the model's
   verify accepts exactly the updates that satisfy the listed conditions) evaluated on the store the proved-correct model
   holds at that point of the history: "the implementation accepted, the characterisation says condition X fails" is a
   violation of clause X with this very history as the input - also when an earlier faulty step has left the
   implementation's own store in a state from which the update looks fine. *)
let model_says (st : pstep) (genesis : byte list) (mres : string) : string option =
  if not (starts mres "err") then None else
  let cls = try int_of_string (String.sub mres 3 (String.length mres - 3)) with _ -> 0 in
  match cls, st.conv with
  | 1, _ -> Some "verified-without-participation"
  | 2, Ok u -> if int_n u.u_sigslot > int_n st.now then Some "verified-future-slot" else Some "verified-unordered-slots"
  | 3, _ -> Some "verified-wrong-period"
  | 4, _ -> Some "verified-irrelevant-update"
  | 5, _ -> Some "verified-bad-finality-branch"
  | 6, _ -> Some "verified-bad-committee-branch"
  | (7 | 8 | 9), Ok u ->
    (match u.u_sig with
     | SigOf (_, m) when ub m = ub (committee_sign_root genesis (htr_header u.u_attested) st.fork) -> Some "verified-wrong-signer-set"
     | _ -> Some "verified-bad-signature")
  | 13, _ -> Some "verified-unknown-wire-type"
  | _ -> None
let next_of_update (st : pstep) = match st.conv with
  | Ok u -> (match u.u_next with Some c -> bhex c.c_root | None -> "-")
  | _ -> "-"

let hist_monitors (steps : pstep list) (truths : string list) (mres : string list) (genesis : byte list) (impl : string) : string list =
  let fails = ref [] in
  let add k d = fails := (k ^ " " ^ d) :: !fails in
  let body = if starts impl "ok " then String.sub impl 3 (String.length impl - 3) else impl in
  (match split ';' body with
   | [] -> add "lightclient-panics" "no observation"
   | d0 :: rest ->
     if List.length rest <> List.length steps then add "lightclient-panics" ("observation count: " ^ impl) else begin
       let prev = ref (parse_digest d0) in
       List.iteri (fun i ob ->
         let st = List.nth steps i and t = List.nth truths i in
         let where = Printf.sprintf "step=%d entry=%s truth=%s" i st.mode t in
         let res, shape, dgs = match split '/' ob with
           | [a; b; c] -> a, b, c
           | _ -> ob, "", "" in
         if st.boot <> None then begin
           (* C12_rebootstrap_forgets: after a successful bootstrap() the store IS the bootstrap store, whatever came before *)
           (match st.boot, parse_digest dgs with
            | Some (_, bd, _, _, _), Some d ->
              if res = "panic" then add "lightclient-panics" where
              else if starts res "err" && t = "-" then add "bootstrap-rejected-valid" (where ^ " " ^ res)
              else if res = "ok" then begin
                let slot = int_n bd.b_beacon.h_slot in
                if d.next <> "-" then add "rebootstrap-keeps-stale-next-committee" (where ^ " next=" ^ String.sub d.next 0 (min 8 (String.length d.next)));
                if d.fslot <> slot || d.oslot <> slot || d.froot <> d.oroot || d.cur <> bhex bd.b_committee.c_root || d.pmax <> 0 || d.cmax <> 0 then
                  add "rebootstrap-keeps-stale-state" where
              end;
              prev := Some d
            | _ -> add "lightclient-panics" (where ^ " unreadable digest"))
         end else begin
         (match expected_shape st.mode with
          | Some e when shape <> e -> add "wire-converter-drops-or-adds-field" (Printf.sprintf "%s converter returned %s, a wire %s carries %s" where shape st.mode e)
          | _ -> ());
         let illtyped = contains t 'L' in
         if res = "panic" && not illtyped then add "lightclient-panics" where;
         let fired = ref [] in
         if not illtyped && not (contains t 'U') then begin
           if res = "ok" then List.iter (fun (c, key) -> if contains t c then (fired := key :: !fired; add key where)) flag_keys;
           if starts res "err" && t = "-" then add "rejected-valid-update" (where ^ " " ^ res)
         end;
         (* the same clauses, by the model's characterisation on the model's own store *)
         let mr = List.nth mres i in
         if not illtyped && not (contains t 'U') then begin
           (if res = "ok" then match model_says st genesis mr with
             | Some key when not (List.mem key !fired) -> add key (where ^ " by-characterisation model=" ^ mr)
             | _ -> ());
           if starts res "err" && mr = "ok" && t <> "-" then add "rejected-valid-update" (where ^ " by-characterisation " ^ res)
         end;
         (match !prev, parse_digest dgs with
          | Some p, Some d ->
            if d.fslot < p.fslot then add "finalized-moved-backwards" where;
            if d.oslot < p.oslot then add "optimistic-moved-backwards" where;
            if d.oslot < d.fslot then add "optimistic-behind-finalized" where;
            if not illtyped && (d.froot <> p.froot || d.cur <> p.cur || d.next <> p.next) && st.nbits * 3 < 512 * 2 then
              add "finalized-changed-below-two-thirds" (Printf.sprintf "%s bits=%d" where st.nbits);
            if d.cur <> p.cur && d.cur <> p.next then add "committee-rotated-to-unknown" where;
            (* C12_committees_step: after a rotation the next committee is what the update carries (nothing for a finality or
               optimistic update); without a rotation it only changes from "none" to what the update carries *)
            if d.cur <> p.cur && d.next <> next_of_update st then
              add "next-committee-not-cleared-on-rotation" (Printf.sprintf "%s next=%s update-carries=%s" where (String.sub d.next 0 (min 8 (String.length d.next))) (let x = next_of_update st in String.sub x 0 (min 8 (String.length x))));
            (* exactly the three cases of C12_committees_step, on roots: untouched; a missing next committee filled from the update;
               a rotation (new current = old next, next = what the update carries).  The third case also covers a store whose
               current and next committee have the SAME root - reachable only through the harness's forced applies - where a
               rotation leaves the current root as it was *)
            if d.cur = p.cur && d.next <> p.next
               && not (p.next = "-" && d.next = next_of_update st)
               && not (p.next = d.cur && d.next = next_of_update st) then
              add "next-committee-changed-without-rotation" where;
            (* history safety (hands_over): a missing next committee may only be filled from an update ATTESTED IN THE STORE'S PERIOD -
               the next committee of an older state is the committee of the store's own period, not the next one *)
            (match st.conv with
             | Ok u when res = "ok" && d.cur = p.cur && p.next = "-" && d.next <> "-" ->   (* verified, not force-applied by the harness *)
               let ap = int_n (calc_sync_period u.u_attested.h_slot) and sp = int_n (calc_sync_period (n_ p.fslot)) in
               if ap <> sp then add "next-committee-from-wrong-period" (Printf.sprintf "%s attested-period=%d store-period=%d" where ap sp)
             | _ -> ());
            if starts res "err" && not st.force && (d <> p) then add "store-changed-by-rejected-update" where;
            prev := Some d
          | _, None -> add "lightclient-panics" (where ^ " unreadable digest")
          | None, _ -> ())
         end)
         rest
     end);
  List.rev !fails

let handle fields impl : string option * string list =
  match fields with
  | ["hist"; _seed; genesis; comms; store; steps; truths] ->
    let comms = parse_comms comms in
    let genesis = hexb genesis in
    let s0 = match split '/' store with
      | [f; o; c; nx; pm; cm] ->
        { s_fin = parse_hdr f; s_opt = parse_hdr o; s_cur = comms.(int_of_string c);
          s_next = (if nx = "-" then None else Some comms.(int_of_string nx));
          s_prev_max = n_ (int_of_string pm); s_cur_max = n_ (int_of_string cm) }
      | _ -> failwith "store" in
    let steps = List.map (parse_step comms) (split ';' steps) in
    let truths = split ';' truths in
    let s = ref s0 in
    let mres = ref [] in
    let obs = List.map (fun st ->
      match st.boot with
      | Some (cp, bd, now, max_age, strict) ->
        let res = (match bootstrap cp bd now max_age strict with
          | Ok s' -> s := s'; "ok" | Err e -> show_err e | Panic -> "panic") in
        mres := res :: !mres;
        res ^ "/boot/" ^ digest !s
      | None ->
      let r = verify_wire !s st.conv st.now genesis st.fork in
      let res = ref (match r with Ok _ -> "ok" | Err e -> show_err e | Panic -> "panic") in
      if !res = "ok" || (st.force && !res <> "panic") then begin
        match apply_wire !s st.conv with
        | Ok s' -> s := s'
        | _ -> res := "panic"
      end;
      mres := !res :: !mres;
      !res ^ "/" ^ shape_of st.conv ^ "/" ^ digest !s) steps in
    let model = "ok " ^ String.concat ";" (digest s0 :: obs) in
    (Some model, hist_monitors steps truths (List.rev !mres) genesis impl)
  | ["boot"; _seed; checkpoint; hdr; exec_root; exec_br_root; comm; branch; now; max_age; strict; truth] ->
    let bd = { b_beacon = parse_hdr hdr; b_exec_root = hexb exec_root; b_exec_branch_root = hexb exec_br_root;
               b_committee = parse_comm comm; b_branch = (match parse_branch branch with Some l -> l | None -> []) } in
    let r = bootstrap (hexb checkpoint) bd (n_ (int_of_string now)) (n_ (int_of_string max_age)) (strict = "1") in
    let model = match r with Ok s -> "ok " ^ digest s | Err e -> show_err e | Panic -> "panic" in
    let fails =
      if starts impl "panic" then ["lightclient-panics bootstrap"]
      else if starts impl "ok" && contains truth 'H' then ["bootstrap-accepted-wrong-checkpoint " ^ truth]
      else if starts impl "ok" && contains truth 'C' then ["bootstrap-accepted-bad-committee-branch " ^ truth]
      else if starts impl "ok" && contains truth 'A' then ["bootstrap-accepted-old-checkpoint-strict " ^ truth]
      else if starts impl "err" && truth = "-" then ["bootstrap-rejected-valid " ^ impl]
      else [] in
    (Some model, fails)
  | ["ecs"; d] ->
    (* expectedCurrentSlot with now - genesis = d seconds (any base value: the model only subtracts) *)
    let d = int_of_string d in
    let base = 1 lsl 40 in
    let now_t, gen_t = if d >= 0 then base + d, base else base, base - d in
    let m = expected_current_slot (n_ now_t) (n_ gen_t) in
    (Some (Printf.sprintf "ok %d" (int_n m)), [])
  | _ -> (Some "driver: unknown line", [])

let () = Util.run handle
