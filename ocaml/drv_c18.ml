(* drv_c18.ml : C18 driver = table correspondence + the step-policy monitors (see drv_tablelib.ml) *)
let () = Util.run (Drv_tablelib.handle ~c07:false ~c18:true)
