(* drv_c11.ml : model side of the C11 correspondence (FINDNODES replies, acceptance of NODES replies) and monitors.
   The responder shuffles every bucket; the driver reconstructs from the implementation's reply a candidate witness
   (one permutation per processed distance) and runs the extracted model with it: the model only uses a witness that
   it has itself checked to be a permutation (pick_perm), so "model(witness) = reply" means the reply is one the
   model allows.  A badly built witness can only produce a false DIFF, never hide one. *)
open C11_model
let n_ (k : int) : n = Obj.magic (Util.n_of_int k)
let nhex (s : string) : n = Obj.magic (Util.n_of_hex s)
let int_n (x : n) : int = Util.int_of_n (Obj.magic x)
let int_nat (x : nat) : int = Util.int_of_nat (Obj.magic x)
let b (l : int list) : byte list = Obj.magic l

let starts s p = String.length s >= String.length p && String.sub s 0 (String.length p) = p
let split c s = String.split_on_char c s

(* tag:id:flags:port:size:valid[:extra] *)
let parse_rec (s : string) : nrec * string list =
  match split ':' s with
  | tag :: id :: fl :: port :: size :: valid :: rest ->
    ({ rtag = n_ (int_of_string tag); rid = nhex id; rflags = n_ (int_of_string fl); rport = n_ (int_of_string port);
       rsize = n_ (int_of_string size); rvalid = (valid = "1") }, rest)
  | _ -> failwith ("bad record " ^ s)
let parse_table (s : string) : (nrec * bool) list list =
  List.map (fun bs -> if bs = "-" then [] else
    List.map (fun e -> let (r, rest) = parse_rec e in (r, rest = ["1"])) (split ',' bs)) (split '/' s)
let parse_dists (s : string) : n list option =
  if s = "N" then None else if s = "." then Some [] else Some (List.map (fun x -> n_ (int_of_string x)) (split ',' s))
let tag_of (r : nrec) = int_n r.rtag
let show_tags (l : nrec list) = match l with [] -> "." | _ -> String.concat "," (List.map (fun r -> string_of_int (tag_of r)) l)
let show_res f = function Ok x -> f x | Err _ -> "err" | Panic -> "panic"

let all_records (tab : (nrec * bool) list list) (self : nrec) : nrec list = self :: List.map fst (List.concat tab)
let find_tag recs (t : string) : nrec option =
  if t = "?" then None else List.find_opt (fun r -> tag_of r = int_of_string t) recs
let parse_tags recs (s : string) : nrec option list = if s = "." then [] else List.map (find_tag recs) (split ',' s)

(* candidate witness: for every processed distance the order in which the bucket's live entries must have been shuffled *)
let build_witness tab self rip (dists : n list) (reply : nrec list) : (int * nrec list) list =
  let processed = ref [] and rest = ref reply and ws = ref [] in
  List.iter (fun dn ->
    let d = int_n dn in
    if d > 256 || List.mem d !processed then () else begin
      processed := d :: !processed;
      if d = 0 then begin
        (match !rest with x :: t when rec_eqb x self && relay_ok rip self.rflags -> rest := t | _ -> ())
      end else begin
        let bucket = try List.nth tab (int_nat (bucket_index dn)) with _ -> [] in
        let live = List.map fst (List.filter snd bucket) in
        let g = List.filter (fun r -> relay_ok rip r.rflags) live in
        let used = ref [] in
        let go = ref true in
        while !go do
          match !rest with
          | x :: t when List.exists (rec_eqb x) g && not (List.exists (rec_eqb x) !used) -> used := x :: !used; rest := t
          | _ -> go := false
        done;
        let p = List.rev !used in
        let remaining = List.filter (fun r -> not (List.exists (rec_eqb r) p)) live in
        (* the largest remaining record first: if the reply was cut by the size limit, that one must not have fitted *)
        let remaining = List.stable_sort (fun x y -> compare (int_n y.rsize) (int_n x.rsize)) remaining in
        ws := (d, p @ remaining) :: !ws
      end
    end) dists;
  !ws

let fn_monitors tab self rip dists (len : int) (tags : nrec option list) : string list =
  let fails = ref [] in
  let add k = if not (List.mem k !fails) then fails := k :: !fails in
  if List.exists (fun t -> t = None) tags then add "findnodes-unknown-record reply-holds-bytes-that-are-neither-the-local-record-nor-a-table-entry";
  let recs = List.filter_map (fun x -> x) tags in
  if int_n (talkresp_datagram (n_ 8) false (n_ len) false) > 1280 then add (Printf.sprintf "findnodes-reply-too-big reply=%d" len);
  if len <> int_n (nodes_reply_len recs) && not (List.exists (fun t -> t = None) tags) then add (Printf.sprintf "findnodes-reply-length-inconsistent reply=%d" len);
  if List.length tags > 32 then add (Printf.sprintf "findnodes-more-than-32 n=%d" (List.length tags));
  List.iter (fun r ->
    if not (relay_ok rip r.rflags) then add (Printf.sprintf "findnodes-relay-unsafe tag=%d" (tag_of r));
    if not (entry_of_requested_b tab self dists r) then add (Printf.sprintf "findnodes-record-not-from-requested-distance tag=%d" (tag_of r))
    else if not (from_requested_b tab self dists r) then add (Printf.sprintf "findnodes-dead-entry-returned tag=%d" (tag_of r))) recs;
  (* the local record is offered for distance 0 (when relay-safe for the asker and there is room), and a request naming a
     distance whose bucket has live relay-safe entries is not answered with nothing: a record of at most 300 bytes always fits *)
  let dl = List.map int_n dists in
  let have_self = List.exists (fun r -> rec_eqb r self) recs in
  (* when 0 is the first valid distance named, the local record is the first candidate: it is the first record of the reply
     (later positions can legitimately be lost to the size cut, which stops at the first record that does not fit) *)
  let first_valid = (match List.filter (fun d -> d <= 256) dl with d :: _ -> Some d | [] -> None) in
  if first_valid = Some 0 && relay_ok rip self.rflags && not (match recs with r :: _ -> rec_eqb r self | [] -> false)
     && not (List.exists (fun t -> t = None) tags) then
    add "findnodes-omits-local-record distance-0-is-the-first-requested-distance-and-the-local-record-is-relay-safe";
  ignore have_self;
  if tags = [] then begin
    let candidate = List.exists (fun d ->
      if d = 0 then relay_ok rip self.rflags
      else d <= 256 && (let bucket = try List.nth tab (int_nat (bucket_index (n_ d))) with _ -> [] in
                        List.exists (fun ((r : nrec), live) -> live && relay_ok rip r.rflags) bucket)) dl in
    if candidate then add "findnodes-empty-despite-live-entries a-requested-distance-has-live-relay-safe-candidates"
  end;
  (* invalid and repeated distances contribute nothing: at most one copy of each candidate per distinct valid distance *)
  let distinct = List.sort_uniq compare (List.filter (fun d -> d <= 256) (List.map int_n dists)) in
  let cap = List.fold_left (fun acc d ->
    if d = 0 then acc + 1 else
      let bucket = try List.nth tab (int_nat (bucket_index (n_ d))) with _ -> [] in
      acc + List.length (List.filter snd bucket)) 0 distinct in
  if List.length tags > cap then add (Printf.sprintf "findnodes-repeated-or-invalid-distance-contributed n=%d cap=%d" (List.length tags) cap);
  List.iter (fun r ->
    let copies = List.length (List.filter (rec_eqb r) recs) in
    let allowed = List.length (List.filter (fun d -> from_requested_b tab self [n_ d] r) distinct) in
    if copies > allowed && allowed > 0 then add (Printf.sprintf "findnodes-repeated-or-invalid-distance-contributed tag=%d copies=%d" (tag_of r) copies)) recs;
  List.rev !fails

let handle fields impl : string option * string list =
  match fields with
  | ["fn"; _; _; _; _; ds; _; ";"; selfs; ripf; tabs; initdone] ->
    let init_done = (initdone = "1") in
    let (self, _) = parse_rec selfs in
    let rip = n_ (int_of_string ripf) in
    let tab = parse_table tabs in
    let dists = match parse_dists ds with Some l -> l | None -> [] in
    let recs = all_records tab self in
    let impl_parts = split ' ' impl in
    let (reply_opt, len) = match impl_parts with
      | ["ok"; len; tags] -> (Some (parse_tags recs tags), int_of_string len)
      | _ -> (None, 0) in
    let reply_known = match reply_opt with Some l -> List.filter_map (fun x -> x) l | None -> [] in
    let ws = build_witness tab self rip dists reply_known in
    let shuf (d : n) (g : nrec list) = pick_perm (List.assoc_opt (int_n d) ws) g in
    let m = show_res (fun enrs -> Printf.sprintf "ok %d %s" (int_n (nodes_reply_len enrs)) (show_tags enrs))
        (handle_find_nodes_st init_done tab self rip shuf dists) in
    let mons = match reply_opt with
      | Some tags -> fn_monitors tab self rip dists len tags
      | None -> if starts impl "ok" then ["findnodes-reply-malformed " ^ impl]
                else if starts impl "panic" then ["findnodes-panic " ^ impl] else [] in
    (Some m, mons)
  | "pq" :: _ when starts impl "unobserved" -> (None, [])
  | [("pn" | "pq"); _; _; ds; resph; _; ";"; senders; decs] ->
    let (sender, _) = parse_rec senders in
    let dists = parse_dists ds in
    let resp = b (Util.bytes_of_hex resph) in
    let dec_pairs = if decs = "E" then None else if decs = "." then Some [] else
        Some (List.map (fun s -> let (r, rest) = parse_rec s in (r, rest = ["1"])) (split ',' decs)) in
    let decoded = match dec_pairs with None -> Err (n_ 3) | Some l -> Ok (List.map fst l) in
    let m = show_res (fun l -> "ok " ^ show_tags l) (process_nodes resp decoded sender dists) in
    (* monitors: the acceptance conditions of the property, with validity = what the generator knows about the record *)
    let mons =
      if starts impl "panic" then ["nodes-panic " ^ impl]
      else if not (starts impl "ok") then []
      else match dec_pairs with
        | None -> ["nodes-accepted-undecodable-response " ^ impl]
        | Some l ->
          let truth = List.map (fun ((r : nrec), g) -> { r with rvalid = r.rvalid && g }) l in
          let out = ref (match split ' ' impl with [_; t] when t <> "." -> split ',' t | _ -> []) in
          let fails = ref [] in
          let rec walk before = function
            | [] -> ()
            | (r : nrec) :: rest ->
              let accepted = (match !out with t :: tl when t = string_of_int (tag_of r) -> out := tl; true | _ -> false) in
              let should = accept_conditions_b sender dists (List.rev before) r in
              if accepted && not should then begin
                let key =
                  if not r.rvalid then "nodes-accepted-bad-signature"
                  else if not (relay_ok sender.rflags r.rflags) then "nodes-accepted-relay-unsafe"
                  else if int_n r.rport <= 1024 then "nodes-accepted-low-port"
                  else if (match dists with Some dl -> not (List.exists (fun d -> int_n d = int_n (logdist sender.rid r.rid)) dl) | None -> false)
                  then "nodes-accepted-wrong-distance"
                  else "nodes-accepted-repeat" in
                fails := (Printf.sprintf "%s tag=%d" key (tag_of r)) :: !fails
              end else if should && not accepted then
                fails := (Printf.sprintf "nodes-rejected-acceptable-record tag=%d" (tag_of r)) :: !fails;
              walk (r :: before) rest in
          walk [] truth;
          if !out <> [] then fails := ("nodes-returned-record-not-in-response " ^ String.concat "," !out) :: !fails;
          List.rev !fails in
    (Some m, mons)
  | ["dg"; _; _] when impl = "unobserved" -> (None, [])   (* the exchange timed out or could not be attributed: proves nothing either way *)
  | "live-unobserved" :: _ -> (None, [])
  | ["lfn"; _; ";"; _; _] when starts impl "err" -> (None, [])
  | ["dg"; reqid; resplen] ->
    let predicted = int_n (talkresp_datagram (n_ (int_of_string reqid)) false (n_ (int_of_string resplen)) false) in
    let sizes = if impl = "." then [] else List.map int_of_string (split ',' impl) in
    let mons = List.filter_map (fun s -> if s > 1280 then Some (Printf.sprintf "findnodes-reply-too-big datagram=%d" s) else None) sizes in
    ((if List.mem predicted sizes then Some impl else Some (Printf.sprintf "expected-a-datagram-of-%d-bytes" predicted)), mons)
  | ["lfn"; ds; ";"; selfs; tabs] ->
    (* live exchange: what the asker ended up with must satisfy both sides' rules *)
    let (self, _) = parse_rec selfs in
    let tab = parse_table tabs in
    let dists = match parse_dists ds with Some l -> l | None -> [] in
    let recs = all_records tab self in
    let mons =
      if not (starts impl "ok") then [] else begin
        let tags = (match split ' ' impl with [_; t] -> parse_tags recs t | _ -> []) in
        let fails = ref [] in
        if List.length tags > 32 then fails := "live-findnodes-more-than-32" :: !fails;
        List.iter (function
          | None -> fails := "live-findnodes-unknown-record" :: !fails
          | Some (r : nrec) ->
            if not (from_requested_b tab self dists r) then fails := (Printf.sprintf "live-findnodes-record-not-live-at-requested-distance tag=%d" (tag_of r)) :: !fails;
            if not (rec_eqb r self) && not (List.exists (fun d -> int_n d = int_n (logdist self.rid r.rid)) dists) then
              fails := (Printf.sprintf "live-findnodes-accepted-wrong-distance tag=%d" (tag_of r)) :: !fails;
            if int_n r.rport <= 1024 then fails := (Printf.sprintf "live-findnodes-accepted-low-port tag=%d" (tag_of r)) :: !fails) tags;
        List.rev !fails
      end in
    (None, mons)
  | "live-error" :: _ -> (Some "live exchange failed", [])
  | _ -> (Some "driver: unknown line", [])

let () = Util.run handle
