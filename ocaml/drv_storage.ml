(* drv_storage.ml : model side of the storage correspondence (C04, C05, C06, C17) and the monitors of the four
   properties evaluated on IMPLEMENTATION observations.  The line kind selects the property (h04/h05/h06/h17...). *)
open Storage_model

let b (l : int list) : byte list = Obj.magic l
let ub (l : byte list) : int list = Obj.magic l
let n_ (k : int) : n = Obj.magic (Util.n_of_int k)
let int_n (x : n) : int = Util.int_of_n (Obj.magic x)
let hexn (x : n) : string = Util.hex_of_n (Obj.magic x)
let n_hex (s : string) : n = Obj.magic (Util.n_of_hex s)
let nat_ (k : int) : nat = Obj.magic (Util.nat_of_int k)
let int_nat (k : nat) : int = Util.int_of_nat (Obj.magic k)
let starts s p = String.length s >= String.length p && String.sub s 0 (String.length p) = p
let split c s = String.split_on_char c s

(* ---- values: descriptors, never materialised *)
type v = Short of int list | Long of int * int           (* Long (vid, len): 8-byte BE vid then a PRNG stream *)
let vlen_i = function Short l -> List.length l | Long (_, n) -> n
let vlen (x : v) : n = n_ (vlen_i x)
let be8 l = let rec go acc k l = if k = 0 then acc else match l with x :: t -> go (acc * 256 + x) (k - 1) t | [] -> acc in go 0 8 l
let vhead8 (x : v) : n res = match x with
  | Long (vid, _) -> Ok (n_ vid)
  | Short l -> if List.length l < 8 then Panic else Ok (n_ (be8 l))
let parse_val s =
  if s.[0] = 's' then Short (Util.bytes_of_hex (String.sub s 1 (String.length s - 1)))
  else match split '.' (String.sub s 1 (String.length s - 1)) with
    | [a; c] -> Long (int_of_string a, int_of_string c)
    | _ -> failwith "val"
let show_val = function
  | Short l -> "s" ^ Util.hex_of_bytes l
  | Long (vid, n) -> Printf.sprintf "l%d.%d" vid n
let be8_bytes k = List.init 8 (fun i -> (k lsr (8 * (7 - i))) land 255)
let show_dbval = function
  | Item x -> show_val x
  | SizeRec k -> "s" ^ Util.hex_of_bytes (be8_bytes (int_n k))
let show_rec = function
  | None -> "none"
  | Some (SizeRec k) -> string_of_int (int_n k)
  | Some (Item (Short l)) when List.length l = 8 && List.hd l < 0x40 -> string_of_int (be8 l)
  | Some (Item x) -> "x" ^ show_val x

(* ---- ops *)
type o = P of int list * v | G of int list | R | K of int
let parse_ops s =
  if s = "." then [] else
  List.map (fun o -> match split ',' o with
    | ["p"; id; vl] -> P (Util.bytes_of_hex id, parse_val vl)
    | ["g"; id] -> G (Util.bytes_of_hex id)
    | ["r"] -> R
    | ["k"; c] -> K (int_of_string c)
    | _ -> failwith "op") (split ';' s)
let pool ops =
  List.rev (List.fold_left (fun acc o -> match o with
    | P (id, _) | G id -> if List.mem id acc then acc else id :: acc
    | _ -> acc) [] ops)

(* ---- model run *)
let le_dec : bytes -> n = le_to_N
let be_dec : bytes -> n = be_to_N

let show_get y id = match get y.mem (b id) with
  | Ok None -> "nf" | Ok (Some x) -> show_dbval x | Err _ -> "err" | Panic -> "panic"
let observe res y ids =
  let g = match ids with [] -> "." | _ -> String.concat "+" (List.map (show_get y) ids) in
  Printf.sprintf "%s,%s,%d,%s,%d,%s" res (hexn y.mem.rad) (int_n y.mem.cnt) (show_rec y.mem.sdb.rec0) (int_n (held vlen y.mem)) g

(* returns (steps, Some k if the model panics/errors at op k) *)
let model_run dec capmb node ops =
  let ids = pool ops in
  let y = ref (init (n_ capmb) k_contentDeletionPPM (b node)) in
  let steps = ref [] and stop = ref None in
  (try List.iteri (fun i o ->
    let res, nxt = match o with
      | P (id, x) ->
        let r = match put vlen dec !y.mem (b id) x with
          | Ok ((_, Stored), _) -> "ok" | Ok ((_, Refused), _) -> "refused" | Ok ((_, PruneErr), _) -> "err"
          | Err _ -> "err" | Panic -> "panic" in
        (r, step vlen vhead8 dec !y (OPut (b id, x)))
      | G id -> (show_get !y id, step vlen vhead8 dec !y (OGet (b id)))
      | R -> ("-", step vlen vhead8 dec !y OReopen)
      | K c -> ("-", step vlen vhead8 dec !y (OCrash (nat_ c))) in
    (match nxt with
     | Ok y' -> y := y'; steps := observe res y' ids :: !steps
     | _ -> stop := Some i; raise Exit)) ops with Exit -> ());
  (List.rev !steps, !stop)

let model_string (steps, stop) impl =
  match stop with
  | None -> "ok " ^ (match steps with [] -> "." | _ -> String.concat ";" steps)
  | Some i ->
    (* the implementation reports "panic <msg> after=<i>"; the message is not modelled *)
    let tag = Printf.sprintf "after=%d" i in
    if starts impl "panic" && (let l = String.length impl and t = String.length tag in l >= t && String.sub impl (l - t) t = tag)
    then impl else Printf.sprintf "panic after=%d" i

(* ---- implementation observations *)
type obs = { res : string; radius : n; rads : string; cnt : int; recs : string; held : int; gets : string list }
let parse_obs impl : obs list option =
  if not (starts impl "ok ") then None else
  let body = String.sub impl 3 (String.length impl - 3) in
  if body = "." then Some [] else
  Some (List.map (fun s -> match split ',' s with
    | [res; rad; cnt; recs; held; gets] ->
      { res; radius = n_hex rad; rads = rad; cnt = int_of_string cnt; recs; held = int_of_string held;
        gets = if gets = "." then [] else split '+' gets }
    | _ -> failwith "obs") (split ';' body))

let key_of node id = match xor_key (b id) (b node) with Ok k -> k | _ -> failwith "key"
let valid_id node id = List.length id = 32 && id <> node
let n_le a c = N.leb a c
let n_lt a c = N.ltb a c

let rec_int o = try int_of_string o.recs with _ -> -1

(* the observation "before" the first op of a history: a new store *)
let obs0 nids = { res = "-"; radius = mAXD; rads = hexn mAXD; cnt = 0; recs = "none"; held = 0; gets = List.init nids (fun _ -> "nf") }

(* iterate over the steps with the previous observation *)
let fold_steps ops (obs : obs list) nids f =
  let prev = ref (obs0 nids) in
  List.iteri (fun i (o, ob) -> f i o !prev ob; prev := ob) (List.combine ops obs)

(* ---------------- C04 monitors *)
let c04_monitors capmb node ops (obs : obs list) : string list =
  let ids = pool ops in
  let cap = capmb * 1000000 in
  let fails = ref [] in
  let fail k d = fails := (k ^ " " ^ d) :: !fails in
  let putvals = Hashtbl.create 16 in       (* id -> values put so far *)
  fold_steps ops obs (List.length ids) (fun i o prev ob ->
    let over_put id x = prev.cnt + List.length id + vlen_i x > cap in
    (match o with P (id, x) -> Hashtbl.add putvals id (show_val x) | _ -> ());
    (match o with
     | P (id, x) when ob.res = "refused" ->
       if (prev.rads, prev.cnt, prev.recs, prev.held, prev.gets) <> (ob.rads, ob.cnt, ob.recs, ob.held, ob.gets)
       then fail "refused-put-changed-state" (Printf.sprintf "step=%d" i)
     | _ -> ());
    List.iteri (fun j id ->
      if valid_id node id then begin
        let g = List.nth ob.gets j and g0 = List.nth prev.gets j in
        if g <> "nf" && not (List.mem g (Hashtbl.find_all putvals id))
        then fail "get-returns-bytes-never-put-under-that-id" (Printf.sprintf "step=%d id#%d got=%s" i j g);
        (match o with
         | P (id', x) when id' = id && ob.res = "ok" ->
           if g <> show_val x && g <> "nf" then fail "get-after-accepted-put-differs" (Printf.sprintf "step=%d id#%d got=%s" i j g);
           if g = "nf" && not (over_put id' x) then fail "accepted-put-lost-without-prune" (Printf.sprintf "step=%d id#%d" i j)
         | P (id', x) when ob.res = "ok" || ob.res = "err" ->
           if g <> g0 && g <> "nf" then fail "get-changed-by-put-of-other-id" (Printf.sprintf "step=%d id#%d %s->%s" i j g0 g);
           if g <> g0 && g = "nf" && not (over_put id' x) then fail "item-lost-without-prune" (Printf.sprintf "step=%d id#%d" i j)
         | P _ -> ()
         | G _ -> if g <> g0 then fail "get-changed-by-get" (Printf.sprintf "step=%d id#%d %s->%s" i j g0 g)
         | R | K _ ->
           if g <> g0 && g <> "nf" then fail "get-changed-by-reopen" (Printf.sprintf "step=%d id#%d %s->%s" i j g0 g);
           if g <> g0 && g = "nf" && not (rec_int prev > cap) then fail "item-lost-by-reopen-without-prune" (Printf.sprintf "step=%d id#%d" i j))
      end) ids;
    (match o with
     | G id when valid_id node id ->
       let j = let rec find k = function [] -> -1 | x :: t -> if x = id then k else find (k + 1) t in find 0 ids in
       if ob.res <> List.nth ob.gets j then fail "get-result-inconsistent" (Printf.sprintf "step=%d" i)
     | _ -> ()));
  List.rev !fails

(* ---------------- C05 monitors (sequential histories) *)
let c05_monitors capmb node ops (obs : obs list) : string list =
  let ids = pool ops in
  let cap = capmb * 1000000 in
  let expect_ = capmb * int_n k_contentDeletionPPM in
  let fails = ref [] in
  let fail k d = fails := (k ^ " " ^ d) :: !fails in
  let all_valid = List.for_all (valid_id node) ids in
  let small = List.for_all (function P (id, x) -> List.length id + vlen_i x <= expect_ | _ -> true) ops in
  let sizes = Hashtbl.create 16 in         (* id -> bytes of the entry currently believed present *)
  if all_valid then
  fold_steps ops obs (List.length ids) (fun i o prev ob ->
    if ob.held > ob.cnt then fail "held-exceeds-counter" (Printf.sprintf "step=%d held=%d counter=%d" i ob.held ob.cnt);
    if ob.recs <> "none" && ob.held > rec_int ob then fail "held-exceeds-size-record" (Printf.sprintf "step=%d held=%d rec=%s" i ob.held ob.recs);
    if ob.recs <> "none" && rec_int ob <> ob.cnt then fail "size-record-differs-from-counter" (Printf.sprintf "step=%d rec=%s counter=%d" i ob.recs ob.cnt);
    if small && ob.held > cap then fail "held-exceeds-capacity-with-small-items" (Printf.sprintf "step=%d held=%d" i ob.held);
    if small && ob.cnt > cap then fail "counter-exceeds-capacity-with-small-items" (Printf.sprintf "step=%d counter=%d" i ob.cnt);
    let present ob j = List.nth ob.gets j <> "nf" in
    let check_prune trigger held_in what =
      (* dropped = present before (or just written) and absent now; kept = present now *)
      let dropped = ref [] and kept = ref [] in
      List.iteri (fun j id ->
        let before = present prev j || (match o with P (id', _) when id' = id && ob.res <> "refused" -> true | _ -> false) in
        if present ob j then kept := key_of node id :: !kept else if before then dropped := key_of node id :: !dropped) ids;
      if !dropped <> [] && not trigger then fail (what ^ "-item-lost-without-prune") (Printf.sprintf "step=%d" i);
      List.iter (fun d -> List.iter (fun k -> if bcmp k d <> Lt then fail (what ^ "-prune-not-farthest-first") (Printf.sprintf "step=%d dropped=%s kept=%s" i (Util.hex_of_bytes (ub d)) (Util.hex_of_bytes (ub k)))) !kept) !dropped;
      if trigger then begin
        let freed = held_in - ob.held in
        if freed < expect_ && ob.held <> 0 then fail (what ^ "-prune-freed-too-little") (Printf.sprintf "step=%d freed=%d held=%d" i freed ob.held)
      end in
    (match o with
     | P (id, x) when ob.res <> "refused" ->
       let len = List.length id + vlen_i x in
       let old = try Hashtbl.find sizes id with Not_found -> 0 in
       let j = let rec find k = function [] -> -1 | y :: t -> if y = id then k else find (k + 1) t in find 0 ids in
       let old = if present prev j then old else 0 in
       Hashtbl.replace sizes id len;
       check_prune (prev.cnt + len > cap) (prev.held - old + len) "put"
     | P _ -> ()
     | G _ -> check_prune false prev.held "get"
     | R | K _ -> check_prune (rec_int prev > cap) prev.held "reopen"));
  List.rev !fails

(* ---------------- C06 monitors *)
let c06_raw node ops (obs : obs list) : string list =
  let ids = pool ops in
  let fails = ref [] in
  let fail k d = fails := (k ^ " " ^ d) :: !fails in
  if List.for_all (valid_id node) ids then
  fold_steps ops obs (List.length ids) (fun i o prev ob ->
    List.iteri (fun j id ->
      if List.nth ob.gets j <> "nf" && not (n_le (be_dec (key_of node id)) ob.radius)
      then fail "retained-item-beyond-radius" (Printf.sprintf "step=%d id#%d radius=%s" i j ob.rads)) ids;
    (match o with
     | P (id, _) when ob.res = "refused" ->
       if n_lt (be_dec (key_of node id)) prev.radius then fail "put-refused-inside-radius" (Printf.sprintf "step=%d radius=%s" i prev.rads)
     | _ -> ());
    (match o with
     | R | K _ -> ()
     | _ -> if not (n_le ob.radius prev.radius) then fail "radius-increased-during-run" (Printf.sprintf "step=%d %s->%s" i prev.rads ob.rads)));
  List.rev !fails

(* Attribution to the known finding (DESIGN.md section 4): the failure is the little-endian decode only if the
   implementation agrees with the faithful (le) model on this very history AND the same history run under the
   repaired instance (be) satisfies the monitors. Anything else keeps its generic key. *)
let attribute_le capmb node ops impl fails known_key =
  if fails = [] then [] else
  let m_le = model_string (model_run le_dec capmb node ops) impl in
  let be_steps, be_stop = model_run be_dec capmb node ops in
  let be_ok = be_stop = None &&
    (match parse_obs (model_string (be_steps, be_stop) "") with Some o -> c06_raw node ops o = [] | None -> false) in
  if m_le = impl && be_ok then
    List.map (fun f -> match split ' ' f with k :: rest -> known_key ^ " " ^ k ^ " " ^ String.concat " " rest | [] -> f) fails
  else fails

(* ---------------- C17 monitors (clean reopen steps of a history) *)
let c17_monitors capmb node ops (obs : obs list) impl : string list =
  let ids = pool ops in
  let cap = capmb * 1000000 in
  let ppm = int_n k_contentDeletionPPM in
  let expect_ = capmb * ppm and thr_ = capmb * (1000000 - ppm) in
  let fails = ref [] in
  let fail k d = fails := (k ^ " " ^ d) :: !fails in
  let putvals = Hashtbl.create 16 in
  let le_fail = ref [] in
  if List.for_all (valid_id node) ids then
  fold_steps ops obs (List.length ids) (fun i o prev ob ->
    (match o with P (id, x) -> Hashtbl.add putvals id (show_val x) | _ -> ());
    match o with
    | R | K _ ->
      List.iteri (fun j id ->
        let g = List.nth ob.gets j in
        if g <> "nf" && not (List.mem g (Hashtbl.find_all putvals id))
        then fail "reopen-returns-bytes-never-put" (Printf.sprintf "step=%d id#%d got=%s" i j g)) ids;
      if ob.recs <> "none" && rec_int ob < ob.held then fail "reopen-size-record-below-held" (Printf.sprintf "step=%d rec=%s held=%d" i ob.recs ob.held);
      if ob.recs = "none" && ob.held > 0 then fail "reopen-size-record-missing" (Printf.sprintf "step=%d held=%d" i ob.held);
      let size = if prev.recs = "none" then 0 else rec_int prev in
      if size > cap && prev.held - ob.held < expect_ && ob.held <> 0
      then fail "reopen-over-capacity-not-pruned" (Printf.sprintf "step=%d size=%d held=%d->%d" i size prev.held ob.held);
      (* radius rule *)
      let present = List.filter (fun id -> List.nth ob.gets (let rec find k = function [] -> -1 | y :: t -> if y = id then k else find (k + 1) t in find 0 ids) <> "nf") ids in
      let keys = List.map (key_of node) present in
      let far = List.fold_left (fun acc k -> match acc with None -> Some k | Some a -> if bcmp a k = Lt then Some k else acc) None keys in
      if size > thr_ then begin
        match far with
        | None ->
          if ob.rads = "0" then fail "reopen-radius-zero-on-empty-over-counted-store" (Printf.sprintf "step=%d size=%d" i size)
          else if ob.rads <> hexn mAXD then fail "reopen-radius-on-empty-store-not-max" (Printf.sprintf "step=%d radius=%s" i ob.rads)
        | Some k ->
          if hexn (be_dec k) <> ob.rads then
            le_fail := Printf.sprintf "reopen-radius-not-farthest-item step=%d radius=%s farthest=%s" i ob.rads (Util.hex_of_bytes (ub k)) :: !le_fail
      end else if ob.rads <> hexn mAXD then fail "reopen-radius-not-max-below-95-percent" (Printf.sprintf "step=%d size=%d radius=%s" i size ob.rads)
    | _ -> ());
  (* the farthest-item radius is read little-endian by the code: attribute exactly as in C06 *)
  let le_fails =
    if !le_fail = [] then [] else
    let m_le = model_string (model_run le_dec capmb node ops) impl in
    let be_steps, be_stop = model_run be_dec capmb node ops in
    let agree_be = (* under the repaired decoder the model's own reopen radius is the big-endian farthest key (theorem) *) be_stop = None in
    ignore be_steps;
    if m_le = impl && agree_be then List.map (fun f -> "newstorage-radius-read-little-endian " ^ f) !le_fail else !le_fail in
  List.rev !fails @ le_fails

(* ---------------- handler *)
let handle fields impl : string option * string list =
  match fields with
  | [kind; capmb; node; opss] when String.length kind = 3 && kind.[0] = 'h' ->
    let capmb = int_of_string capmb and node = Util.bytes_of_hex node and ops = parse_ops opss in
    let m = model_string (model_run le_dec capmb node ops) impl in
    let mons = match parse_obs impl with
      | None -> [kind ^ "-history-panics-or-fails " ^ (if String.length impl > 120 then String.sub impl 0 120 else impl)]
      | Some obs when List.length obs <> List.length ops -> ["history-observation-count"]
      | Some obs ->
        (match kind with
         | "h04" -> c04_monitors capmb node ops obs
         | "h05" -> c05_monitors capmb node ops obs
         | "h06" -> attribute_le capmb node ops impl (c06_raw node ops obs) "pebble-storage-distance-read-little-endian"
         | "h17" -> c17_monitors capmb node ops obs impl
         | _ -> []) in
    (Some m, mons)
  | ["crash"; capmb; node; opss; k] ->
    let capmb = int_of_string capmb and node = Util.bytes_of_hex node and ops = parse_ops opss and k = int_of_string k in
    let ids = pool ops in
    let rec take n l = if n = 0 then [] else match l with [] -> [] | x :: t -> x :: take (n - 1) t in
    let pre = take k ops in
    (* the model state when the process dies *)
    let y = ref (init (n_ capmb) k_contentDeletionPPM (b node)) in
    List.iter (fun o -> match o with
      | P (id, x) -> (match step vlen vhead8 le_dec !y (OPut (b id, x)) with Ok y' -> y := y' | _ -> ())
      | _ -> ()) pre;
    let lo = int_nat !y.synced and hi = List.length !y.disk in
    (* every allowed cut: reopen on the first c committed batches *)
    let allowed = List.init (hi - lo + 1) (fun i ->
      match step vlen vhead8 le_dec !y (OCrash (nat_ (lo + i))) with
      | Ok y' -> "ok " ^ observe "-" y' ids
      | _ -> "model-open-fails") in
    let m = if List.mem impl allowed then impl else Printf.sprintf "none-of-%d-allowed-cuts e.g. %s" (List.length allowed) (List.nth allowed (List.length allowed - 1)) in
    let mons = match parse_obs impl with
      | None -> ["crash-reopen-failed " ^ (if String.length impl > 100 then String.sub impl 0 100 else impl)]
      | Some [ob] ->
        let putvals = Hashtbl.create 16 in
        List.iter (function P (id, x) -> Hashtbl.add putvals id (show_val x) | _ -> ()) pre;
        let f = ref [] in
        List.iteri (fun j id ->
          let g = List.nth ob.gets j in
          if g <> "nf" && not (List.mem g (Hashtbl.find_all putvals id)) then f := Printf.sprintf "crash-reopen-returns-bytes-never-put id#%d got=%s" j g :: !f) ids;
        if ob.recs = "none" && ob.held > 0 then f := Printf.sprintf "crash-reopen-size-record-missing held=%d" ob.held :: !f;
        if ob.recs <> "none" && rec_int ob < ob.held then f := Printf.sprintf "crash-reopen-size-record-below-held rec=%s held=%d" ob.recs ob.held :: !f;
        !f
      | Some _ -> ["crash-observation-shape"] in
    (Some m, mons)
  | ["xor"; id; node] ->
    let m = match xor_key (b (Util.bytes_of_hex id)) (b (Util.bytes_of_hex node)) with
      | Ok k -> "ok " ^ Util.hex_of_bytes (ub k) | Err _ -> "err" | Panic -> "panic" in
    let impl' = if starts impl "panic" then "panic" else impl in
    ((if m = impl' then None else Some m), [])
  | ["thr"; capmb] ->
    let y : v sys = init (n_ (int_of_string capmb)) k_contentDeletionPPM (b []) in
    (Some (Printf.sprintf "ok %d %d" (int_n (expect y.mem)) (int_n (thr y.mem))), [])
  | ["retain"; _; _; _; _] ->
    (* memory lifetime of the bytes handed out by Get: outside the Gallina model, monitor only *)
    let changed = try Scanf.sscanf impl "ok checked=%d changed=%d" (fun _ c -> c) with _ -> -1 in
    (None, if changed = 0 then [] else ["get-returned-slice-changed-later " ^ impl])
  | ["conc"; capmb; _; _; vl; _] ->
    let cap = int_of_string capmb * 1000000 in
    let small = 32 + int_of_string vl <= int_of_string capmb * int_n k_contentDeletionPPM in
    (try Scanf.sscanf impl "ok held=%d rec=%d cnt=%d cap=%d errs=%d" (fun held rc cnt _ errs ->
      (None,
       (if held > rc then [Printf.sprintf "concurrent-puts-held-exceeds-size-record held=%d rec=%d" held rc] else []) @
       (if held > cnt then [Printf.sprintf "concurrent-puts-held-exceeds-counter held=%d counter=%d" held cnt] else []) @
       (if small && held > cap then [Printf.sprintf "concurrent-puts-held-exceeds-capacity held=%d cap=%d" held cap] else []) @
       (if errs > 0 then [Printf.sprintf "concurrent-puts-prune-error errs=%d" errs] else [])))
     with _ -> (None, ["concurrent-puts-run-failed " ^ impl]))
  | ["inr"; node; radius; cid] ->
    let node = b (Util.bytes_of_hex node) and cid = b (Util.bytes_of_hex cid) and radius = n_hex radius in
    let code = match in_range_code node radius cid with Ok true -> "ok true" | Ok false -> "ok false" | Err _ -> "err" | Panic -> "panic" in
    let impl' = if starts impl "panic" then "panic" else impl in
    let mons =
      if List.length cid <> 32 then []
      else begin
        let spec = if in_range_spec node radius cid then "ok true" else "ok false" in
        let old = match in_range_logdist node radius cid with Ok true -> "ok true" | Ok false -> "ok false" | _ -> "panic" in
        if impl' = spec then []
        else if impl' = old then ["inrange-compares-log-distance spec=" ^ spec ^ " impl=" ^ impl']
        else ["inrange-differs-from-xor-rule spec=" ^ spec ^ " impl=" ^ impl']
      end in
    ((if code = impl' then None else Some code), mons)
  | _ -> (Some "driver: unknown line", [])

let () = Util.run handle
