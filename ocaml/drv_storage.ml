(* drv_storage.ml : model side of the storage correspondence (C04, C05, C06, C17) and the monitors of the four
   properties evaluated on IMPLEMENTATION observations.  The line kind selects the property (h04/h05/h06/h17...). *)
open Storage_model

let b (l : int list) : byte list = Obj.magic l
let ub (l : byte list) : int list = Obj.magic l
let n_ (k : int) : n = Obj.magic (Util.n_of_int k)
let int_n (x : n) : int = Util.int_of_n (Obj.magic x)
let hexn (x : n) : string = Util.hex_of_n (Obj.magic x)
let n_hex (s : string) : n = Obj.magic (Util.n_of_hex s)
let nat_ (k : int) : nat = Obj.magic (Util.nat_of_int k)
let int_nat (k : nat) : int = Util.int_of_nat (Obj.magic k)
(* Byte counts, counters and size records are carried as the extracted arbitrary-precision N, never as OCaml ints:
   with content id = node id a value overwrites the size record and the counter reloaded from it can be any uint64. *)
let ten : n = n_ 10
let is_digits s = s <> "" && (let ok = ref true in String.iter (fun c -> if c < '0' || c > '9' then ok := false) s; !ok)
let n_of_dec_opt (s : string) : n option =
  if not (is_digits s) then None else begin
    let r = ref (n_ 0) in
    String.iter (fun c -> r := N.add (N.mul !r ten) (n_ (Char.code c - 48))) s;
    Some !r
  end
let dec_of_n (x : n) : string =
  let rec go x acc =
    let (q, r) = N.div_eucl x ten in
    let acc = String.make 1 (Char.chr (48 + int_n r)) ^ acc in
    if N.eqb q (n_ 0) then acc else go q acc in
  go x ""
let zero : n = n_ 0
let ( +: ) = N.add
let ( *: ) = N.mul
let ( >: ) a c = N.ltb c a
let ( <: ) a c = N.ltb a c
let ( <=: ) a c = N.leb a c
let bytes_of_n8 (k : n) : int list =          (* 8-byte big-endian (k < 2^64) *)
  let rec go k i acc = if i = 0 then acc else let (q, r) = N.div_eucl k (n_ 256) in go q (i - 1) (int_n r :: acc) in
  go k 8 []
let rec take_l n l = if n = 0 then [] else match l with [] -> [] | x :: t -> x :: take_l (n - 1) t
let starts s p = String.length s >= String.length p && String.sub s 0 (String.length p) = p
let split c s = String.split_on_char c s

(* ---- values: descriptors, never materialised *)
type v = Short of int list | Long of int * int           (* Long (vid, len): 8-byte BE vid then a PRNG stream *)
let vlen_i = function Short l -> List.length l | Long (_, n) -> n
let vlen (x : v) : n = n_ (vlen_i x)
let be8 (l : int list) : n = be_to_N (Obj.magic (take_l 8 l))       (* binary.BigEndian.Uint64 of the first 8 bytes *)
let vhead8 (x : v) : n res = match x with
  | Long (vid, _) -> Ok (n_ vid)
  | Short l -> if List.length l < 8 then Panic else Ok (be8 l)
let parse_val s =
  if s.[0] = 's' then Short (Util.bytes_of_hex (String.sub s 1 (String.length s - 1)))
  else match split '.' (String.sub s 1 (String.length s - 1)) with
    | [a; c] -> Long (int_of_string a, int_of_string c)
    | _ -> failwith "val"
let show_val = function
  | Short l -> "s" ^ Util.hex_of_bytes l
  | Long (vid, n) -> Printf.sprintf "l%d.%d" vid n
let show_dbval = function
  | Item x -> show_val x
  | SizeRec k -> "s" ^ Util.hex_of_bytes (bytes_of_n8 k)
let show_rec = function
  | None -> "none"
  | Some (SizeRec k) -> dec_of_n k
  | Some (Item (Short l)) when List.length l = 8 -> dec_of_n (be8 l)
  | Some (Item x) -> "x" ^ show_val x

(* ---- ops *)
type o = P of int list * v | G of int list | R | K of int | C of n     (* C mb: close, reopen with capacity mb *)
       | B of int * int                                                  (* B (count, seed): a bulk of tiny far items *)
       | X of int list * v                                               (* X (raw key, value): a foreign entry written into the database *)
let parse_ops s =
  if s = "." then [] else
  List.map (fun o -> match split ',' o with
    | ["p"; id; vl] -> P (Util.bytes_of_hex id, parse_val vl)
    | ["g"; id] -> G (Util.bytes_of_hex id)
    | ["r"] -> R
    | ["c"; mb] -> (match n_of_dec_opt mb with Some m -> C m | None -> failwith "op")
    | ["k"; c] -> K (int_of_string c)
    | ["b"; n; sd] -> B (int_of_string n, int_of_string sd)
    | ["x"; k; vl] -> X (Util.bytes_of_hex k, parse_val vl)
    | _ -> failwith "op") (split ';' s)
(* item i of a bulk, as harness/c04.go bulkItem: key f0|i>>8, i&0xff, seed, 0.. xor node; value of (i*7+seed) mod 17 bytes *)
let bulk_item node seed i : int list * v =
  let k = List.init 32 (fun j -> if j = 0 then 0xf0 lor ((i lsr 8) land 0x0f) else if j = 1 then i land 255 else if j = 2 then seed land 255 else 0) in
  let id = List.map2 (fun a c -> a lxor c) k node in
  let n = (i * 7 + seed) mod 17 in
  (id, Short (List.init n (fun j -> (i + j + seed) land 255)))
let pool ops =
  List.rev (List.fold_left (fun acc o -> match o with
    | P (id, _) | G id -> if List.mem id acc then acc else id :: acc
    | _ -> acc) [] ops)

(* ---- model run *)
let le_dec : bytes -> n = le_to_N
let be_dec : bytes -> n = be_to_N

let show_get y id = match get y.mem (b id) with
  | Ok None -> "nf" | Ok (Some x) -> show_dbval x | Err _ -> "err" | Panic -> "panic"
let observe res y ids =
  let g = match ids with [] -> "." | _ -> String.concat "+" (List.map (show_get y) ids) in
  Printf.sprintf "%s,%s,%s,%s,%s,%s" res (hexn y.mem.rad) (dec_of_n y.mem.cnt) (show_rec y.mem.sdb.rec0) (dec_of_n (held vlen y.mem)) g

(* returns (steps, Some k if the model panics/errors at op k) *)
let model_run dec (capmb : n) node ops =
  let ids = pool ops in
  let y = ref (init capmb k_contentDeletionPPM (b node)) in
  let steps = ref [] and stop = ref None in
  (try List.iteri (fun i o ->
    let res, nxt = match o with
      | P (id, x) ->
        let r = match put vlen dec !y.mem (b id) x with
          | Ok ((_, Stored), _) -> "ok" | Ok ((_, Refused), _) -> "refused" | Ok ((_, PruneErr), _) -> "err"
          | Err _ -> "err" | Panic -> "panic" in
        (r, step vlen vhead8 dec !y (OPut (b id, x)))
      | G id -> (show_get !y id, step vlen vhead8 dec !y (OGet (b id)))
      | B (count, seed) ->
        let acc = ref 0 and cur = ref (Ok !y) in
        for i = 0 to count - 1 do
          match !cur with
          | Ok yy ->
            let (id, x) = bulk_item node seed i in
            (match put vlen dec yy.mem (b id) x with Ok ((_, Stored), _) -> incr acc | _ -> ());
            cur := step vlen vhead8 dec yy (OPut (b id, x))
          | _ -> ()
        done;
        (Printf.sprintf "b%d" !acc, !cur)
      | X _ -> ("-", Ok !y)       (* outside the model: only f05 lines contain it, and those are not compared with the model *)
      | R -> ("-", step vlen vhead8 dec !y OReopen)
      | K c -> ("-", step vlen vhead8 dec !y (OCrash (nat_ c)))
      | C mb ->
        (* a restart under another configuration: NewStorage gets the new capacity, everything else is the reopen *)
        let m = !y.mem in
        let y1 = { !y with mem = { m with capMB = mb } } in
        ("-", step vlen vhead8 dec y1 OReopen) in
    (match nxt with
     | Ok y' -> y := y'; steps := observe res y' ids :: !steps
     | _ -> stop := Some i; raise Exit)) ops with Exit -> ());
  (List.rev !steps, !stop)

(* an implementation observable of a history: "ok <steps>" or, when op number i failed (NewStorage returned an error, or
   a panic), "panic <msg> after=<i> <steps before it>".  Returns (failure index, message, steps string). *)
let split_impl impl : (int option * string * string) option =
  if starts impl "ok " then Some (None, "", String.sub impl 3 (String.length impl - 3))
  else if starts impl "panic " then
    match List.rev (split ' ' impl) with
    | stp :: aft :: rest when starts aft "after=" ->
      (match int_of_string_opt (String.sub aft 6 (String.length aft - 6)) with
       | Some i -> Some (Some i, String.concat " " (List.rev rest), stp)
       | None -> None)
    | _ -> None
  else None

let model_string (steps, stop) impl =
  let stp = match steps with [] -> "." | _ -> String.concat ";" steps in
  match stop with
  | None -> "ok " ^ stp
  | Some i ->
    (* the failure message is not modelled: it is taken from the implementation when it fails at the same op *)
    (match split_impl impl with
     | Some (Some j, msg, _) when j = i -> Printf.sprintf "%s after=%d %s" msg i stp
     | _ -> Printf.sprintf "panic after=%d %s" i stp)

(* ---- implementation observations *)
type obs = { res : string; radius : n; rads : string; cnt : n; recs : string; recn : n option; held : n; gets : string list }
let is_hex s = s <> "" && (let ok = ref true in String.iter (fun c -> if not ((c >= '0' && c <= '9') || (c >= 'a' && c <= 'f')) then ok := false) s; !ok)
(* None when the observation is not of the expected shape (reported as such, never an exception) *)
let parse_obs impl : obs list option =
  match split_impl impl with
  | None -> None
  | Some (_, _, body) ->
  if body = "." then Some [] else
  let steps = List.map (fun s -> match split ',' s with
    | [res; rad; cnt; recs; held; gets] when is_hex rad ->
      (match n_of_dec_opt cnt, n_of_dec_opt held with
       | Some c, Some h ->
         Some { res; radius = n_hex rad; rads = rad; cnt = c; recs; recn = n_of_dec_opt recs; held = h;
                gets = if gets = "." then [] else split '+' gets }
       | _ -> None)
    | _ -> None) (split ';' body) in
  if List.mem None steps then None else Some (List.map (function Some x -> x | None -> assert false) steps)

let key_of node id = match xor_key (b id) (b node) with Ok k -> k | _ -> failwith "key"
let valid_id node id = List.length id = 32 && id <> node
let n_le a c = N.leb a c
let n_lt a c = N.ltb a c

(* the size record as a number; a record that is not an 8-byte counter (a value written under the SizeKey) counts as
   absent for the monitors - those only speak about histories without the node id itself *)
let rec_n (o : obs) : n = match o.recn with Some k -> k | None -> zero
let has_rec (o : obs) = o.recn <> None
let sd = dec_of_n

(* the observation "before" the first op of a history: a new store *)
let obs0 nids = { res = "-"; radius = mAXD; rads = hexn mAXD; cnt = zero; recs = "none"; recn = None; held = zero; gets = List.init nids (fun _ -> "nf") }

(* iterate over the steps with the previous observation *)
let fold_steps ops (obs : obs list) nids f =
  let prev = ref (obs0 nids) in
  List.iteri (fun i (o, ob) -> f i o !prev ob; prev := ob) (List.combine ops obs)

(* ---------------- C04 monitors *)
let c04_monitors (capmb : n) node ops (obs : obs list) : string list =
  let ids = pool ops in
  let capr = ref (capmb *: k_bytesPerMB) in
  let fails = ref [] in
  let fail k d = fails := (k ^ " " ^ d) :: !fails in
  let putvals = Hashtbl.create 16 in       (* id -> values put so far *)
  fold_steps ops obs (List.length ids) (fun i o prev ob ->
    (match o with C mb -> capr := mb *: k_bytesPerMB | _ -> ());
    let cap = !capr in
    let over_put id x = (prev.cnt +: n_ (List.length id + vlen_i x)) >: cap in
    (match o with P (id, x) -> Hashtbl.add putvals id (show_val x) | _ -> ());
    (match o with
     | P (id, x) when ob.res = "refused" ->
       if (prev.rads, sd prev.cnt, prev.recs, sd prev.held, prev.gets) <> (ob.rads, sd ob.cnt, ob.recs, sd ob.held, ob.gets)
       then fail "refused-put-changed-state" (Printf.sprintf "step=%d" i)
     | _ -> ());
    (* the record on disk (read by a scan right after the step) is the usage figure the store keeps in memory: what a
       restart will reload decides whether readable items are pruned at open *)
    if has_rec ob && not (N.eqb (rec_n ob) ob.cnt)
    then fail "persisted-size-record-differs-from-counter" (Printf.sprintf "step=%d record=%s counter=%s bytes-present=%s" i ob.recs (sd ob.cnt) (sd ob.held));
    List.iteri (fun j id ->
      if valid_id node id then begin
        let g = List.nth ob.gets j and g0 = List.nth prev.gets j in
        if g <> "nf" && not (List.mem g (Hashtbl.find_all putvals id))
        then fail "get-returns-bytes-never-put-under-that-id" (Printf.sprintf "step=%d id#%d got=%s" i j g);
        (match o with
         | P (id', x) when id' = id && ob.res = "ok" ->
           if g <> show_val x && g <> "nf" then fail "get-after-accepted-put-differs" (Printf.sprintf "step=%d id#%d got=%s" i j g);
           if g = "nf" && not (over_put id' x) then fail "accepted-put-lost-without-prune" (Printf.sprintf "step=%d id#%d" i j)
         | P (id', x) when ob.res = "ok" || ob.res = "err" ->
           if g <> g0 && g <> "nf" then fail "get-changed-by-put-of-other-id" (Printf.sprintf "step=%d id#%d %s->%s" i j g0 g);
           if g <> g0 && g = "nf" && not (over_put id' x) then fail "item-lost-without-prune" (Printf.sprintf "step=%d id#%d" i j)
         | P _ -> ()
         | B _ -> ()
         | G _ -> if g <> g0 then fail "get-changed-by-get" (Printf.sprintf "step=%d id#%d %s->%s" i j g0 g)
         | R | K _ | C _ ->
           if g <> g0 && g <> "nf" then fail "get-changed-by-reopen" (Printf.sprintf "step=%d id#%d %s->%s" i j g0 g);
           (* NewStorage prunes only when the usage figure it reloads exceeds the capacity; that figure is the counter
              the store kept in memory before it was closed (an implementation observation, not the model's) *)
           if g <> g0 && g = "nf" && not (prev.cnt >: cap)
           then fail "item-lost-across-reopen-without-over-capacity" (Printf.sprintf "step=%d id#%d counter-before-close=%s" i j (sd prev.cnt)))
      end) ids;
    (match o with
     | G id when valid_id node id ->
       let j = let rec find k = function [] -> -1 | x :: t -> if x = id then k else find (k + 1) t in find 0 ids in
       if ob.res <> List.nth ob.gets j then fail "get-result-inconsistent" (Printf.sprintf "step=%d" i)
     | _ -> ()));
  List.rev !fails

(* ---------------- C05 monitors (sequential histories) *)
let c05_monitors (capmb : n) node ops (obs : obs list) : string list =
  let ids = pool ops in
  let cap = capmb *: k_bytesPerMB in
  let expect_ = capmb *: k_contentDeletionPPM in
  let fails = ref [] in
  let fail k d = fails := (k ^ " " ^ d) :: !fails in
  let ops_has_c = List.exists (function C _ -> true | _ -> false) ops in
  let all_valid = List.for_all (valid_id node) ids in
  let small = List.for_all (function P (id, x) -> n_ (List.length id + vlen_i x) <=: expect_ | _ -> true) ops in
  let sizes = Hashtbl.create 16 in         (* id -> bytes of the entry currently believed present *)
  if all_valid && not ops_has_c then
  fold_steps ops obs (List.length ids) (fun i o prev ob ->
    if ob.held >: ob.cnt then fail "held-exceeds-counter" (Printf.sprintf "step=%d held=%s counter=%s" i (sd ob.held) (sd ob.cnt));
    if ob.recs <> "none" && not (has_rec ob) then fail "size-record-is-not-a-counter" (Printf.sprintf "step=%d rec=%s" i ob.recs);
    if has_rec ob && ob.held >: rec_n ob then fail "held-exceeds-size-record" (Printf.sprintf "step=%d held=%s rec=%s" i (sd ob.held) ob.recs);
    if has_rec ob && not (N.eqb (rec_n ob) ob.cnt) then fail "size-record-differs-from-counter" (Printf.sprintf "step=%d rec=%s counter=%s" i ob.recs (sd ob.cnt));
    if small && ob.held >: cap then fail "held-exceeds-capacity-with-small-items" (Printf.sprintf "step=%d held=%s" i (sd ob.held));
    if small && ob.cnt >: cap then fail "counter-exceeds-capacity-with-small-items" (Printf.sprintf "step=%d counter=%s" i (sd ob.cnt));
    let present ob j = List.nth ob.gets j <> "nf" in
    let check_prune trigger held_in what =
      (* dropped = present before (or just written) and absent now; kept = present now *)
      let dropped = ref [] and kept = ref [] in
      List.iteri (fun j id ->
        let before = present prev j || (match o with P (id', _) when id' = id && ob.res <> "refused" -> true | _ -> false) in
        if present ob j then kept := key_of node id :: !kept else if before then dropped := key_of node id :: !dropped) ids;
      if !dropped <> [] && not trigger then fail (what ^ "-item-lost-without-prune") (Printf.sprintf "step=%d" i);
      List.iter (fun d -> List.iter (fun k -> if bcmp k d <> Lt then fail (what ^ "-prune-not-farthest-first") (Printf.sprintf "step=%d dropped=%s kept=%s" i (Util.hex_of_bytes (ub d)) (Util.hex_of_bytes (ub k)))) !kept) !dropped;
      if trigger then begin
        (* freed = held_in - held_now;  freed < expect  <=>  held_in < held_now + expect *)
        if held_in <: (ob.held +: expect_) && not (N.eqb ob.held zero)
        then fail (what ^ "-prune-freed-too-little") (Printf.sprintf "step=%d held=%s->%s" i (sd held_in) (sd ob.held))
      end in
    (match o with
     | P (id, x) when ob.res <> "refused" ->
       let len = List.length id + vlen_i x in
       let old = try Hashtbl.find sizes id with Not_found -> 0 in
       let j = let rec find k = function [] -> -1 | y :: t -> if y = id then k else find (k + 1) t in find 0 ids in
       let old = if present prev j then old else 0 in
       Hashtbl.replace sizes id len;
       check_prune ((prev.cnt +: n_ len) >: cap) (N.sub (prev.held +: n_ len) (n_ old)) "put"
     | P _ -> ()
     | B _ -> check_prune (ob.cnt >: cap || prev.cnt >: cap) (if N.ltb prev.held ob.held then ob.held else prev.held) "bulk"
     | G _ -> check_prune false prev.held "get"
     | R | K _ | C _ -> check_prune (rec_n prev >: cap) prev.held "reopen"));
  List.rev !fails

(* ---------------- C06 monitors *)
let c06_raw node ops (obs : obs list) : string list =
  let ids = pool ops in
  let fails = ref [] in
  let fail k d = fails := (k ^ " " ^ d) :: !fails in
  if List.for_all (valid_id node) ids then
  fold_steps ops obs (List.length ids) (fun i o prev ob ->
    List.iteri (fun j id ->
      if List.nth ob.gets j <> "nf" && not (n_le (be_dec (key_of node id)) ob.radius)
      then fail "retained-item-beyond-radius" (Printf.sprintf "step=%d id#%d radius=%s" i j ob.rads)) ids;
    (match o with
     | P (id, _) when ob.res = "refused" ->
       if n_lt (be_dec (key_of node id)) prev.radius then fail "put-refused-inside-radius" (Printf.sprintf "step=%d radius=%s" i prev.rads)
     | _ -> ());
    (match o with
     | R | K _ | C _ -> ()
     | _ -> if not (n_le ob.radius prev.radius) then fail "radius-increased-during-run" (Printf.sprintf "step=%d %s->%s" i prev.rads ob.rads)));
  List.rev !fails

(* Attribution to the known finding (DESIGN.md section 4): the failure is the little-endian decode only if the
   implementation agrees with the faithful (le) model on this very history AND the same history run under the
   repaired instance (be) satisfies the monitors. Anything else keeps its generic key. *)
let attribute_le (capmb : n) node ops impl fails known_key =
  if fails = [] then [] else
  let m_le = model_string (model_run le_dec capmb node ops) impl in
  let be_steps, be_stop = model_run be_dec capmb node ops in
  let be_ok = be_stop = None &&
    (match parse_obs (model_string (be_steps, be_stop) "") with Some o -> c06_raw node ops o = [] | None -> false) in
  if m_le = impl && be_ok then
    List.map (fun f -> match split ' ' f with k :: rest -> known_key ^ " " ^ k ^ " " ^ String.concat " " rest | [] -> f) fails
  else fails

(* ---------------- C17 monitors (clean reopen steps of a history) *)
let c17_monitors (capmb : n) node ops (obs : obs list) impl : string list =
  let ids = pool ops in
  let cmb = ref capmb in
  let fails = ref [] in
  let fail k d = fails := (k ^ " " ^ d) :: !fails in
  let putvals = Hashtbl.create 16 in
  let le_fail = ref [] in
  if List.for_all (valid_id node) ids then
  fold_steps ops obs (List.length ids) (fun i o prev ob ->
    (match o with P (id, x) -> Hashtbl.add putvals id (show_val x) | _ -> ());
    (match o with C mb -> cmb := mb | _ -> ());
    (* thresholds of the configuration the store is (re)opened with *)
    let cap = !cmb *: k_bytesPerMB in
    let expect_ = !cmb *: k_contentDeletionPPM and thr_ = !cmb *: (N.sub k_bytesPerMB k_contentDeletionPPM) in
    match o with
    | R | K _ | C _ ->
      List.iteri (fun j id ->
        let g = List.nth ob.gets j in
        if g <> "nf" && not (List.mem g (Hashtbl.find_all putvals id))
        then fail "reopen-returns-bytes-never-put" (Printf.sprintf "step=%d id#%d got=%s" i j g)) ids;
      if ob.recs <> "none" && not (has_rec ob) then fail "reopen-size-record-is-not-a-counter" (Printf.sprintf "step=%d rec=%s" i ob.recs);
      if has_rec ob && rec_n ob <: ob.held then fail "reopen-size-record-below-held" (Printf.sprintf "step=%d rec=%s held=%s" i ob.recs (sd ob.held));
      if ob.recs = "none" && ob.held >: zero then fail "reopen-size-record-missing" (Printf.sprintf "step=%d held=%s" i (sd ob.held));
      let size = rec_n prev in
      (* freed = prev.held - held_now < expect  <=>  prev.held < held_now + expect *)
      if size >: cap && prev.held <: (ob.held +: expect_) && not (N.eqb ob.held zero)
      then fail "reopen-over-capacity-not-pruned" (Printf.sprintf "step=%d size=%s held=%s->%s" i (sd size) (sd prev.held) (sd ob.held));
      (* radius rule *)
      let present = List.filter (fun id -> List.nth ob.gets (let rec find k = function [] -> -1 | y :: t -> if y = id then k else find (k + 1) t in find 0 ids) <> "nf") ids in
      let keys = List.map (key_of node) present in
      let far = List.fold_left (fun acc k -> match acc with None -> Some k | Some a -> if bcmp a k = Lt then Some k else acc) None keys in
      if size >: thr_ then begin
        match far with
        | None ->
          if ob.rads = "0" then fail "reopen-radius-zero-on-empty-over-counted-store" (Printf.sprintf "step=%d size=%s" i (sd size))
          else if ob.rads <> hexn mAXD then fail "reopen-radius-on-empty-store-not-max" (Printf.sprintf "step=%d radius=%s" i ob.rads)
        | Some k ->
          if hexn (be_dec k) <> ob.rads then
            le_fail := Printf.sprintf "reopen-radius-not-farthest-item step=%d radius=%s farthest=%s" i ob.rads (Util.hex_of_bytes (ub k)) :: !le_fail
      end else if ob.rads <> hexn mAXD then fail "reopen-radius-not-max-below-95-percent" (Printf.sprintf "step=%d size=%s radius=%s" i (sd size) ob.rads)
    | _ -> ());
  (* the farthest-item radius is read little-endian by the code: attribute exactly as in C06 *)
  let le_fails =
    if !le_fail = [] then [] else
    let m_le = model_string (model_run le_dec capmb node ops) impl in
    let be_steps, be_stop = model_run be_dec capmb node ops in
    let agree_be = (* under the repaired decoder the model's own reopen radius is the big-endian farthest key (theorem) *) be_stop = None in
    ignore be_steps;
    if m_le = impl && agree_be then List.map (fun f -> "newstorage-radius-read-little-endian " ^ f) !le_fail else !le_fail in
  List.rev !fails @ le_fails

(* ---------------- the history hybrid store (y04): routing by the content key in front of the modelled store *)
type ho = HP of int list * int list * v | HG of int list * int list | HR
let parse_hops s =
  if s = "." then [] else
  List.map (fun o -> match split ',' o with
    | ["p"; key; id; vl] -> HP (Util.bytes_of_hex key, Util.bytes_of_hex id, parse_val vl)
    | ["g"; key; id] -> HG (Util.bytes_of_hex key, Util.bytes_of_hex id)
    | ["r"] -> HR
    | _ -> failwith "hop") (split ';' s)
let eph key = is_ephemeral (b key)
let hpool ops =
  List.rev (List.fold_left (fun acc o -> match o with
    | HP (key, id, _) | HG (key, id) -> if eph key || List.mem (key, id) acc then acc else (key, id) :: acc
    | HR -> acc) [] ops)

(* model: operations under a non-ephemeral key act on the modelled store and ignore the key; the ephemeral store is
   opaque - the result of an operation addressed to it is taken from the implementation and must not change anything *)
let hybrid_model_run (capmb : n) node ops (impl_res : int -> string) =
  let pairs = hpool ops in
  let ids = List.map snd pairs in
  let y = ref (init capmb k_contentDeletionPPM (b node)) in
  let steps = ref [] and stop = ref None in
  (try List.iteri (fun i o ->
    let res, nxt = match o with
      | HP (key, _, _) | HG (key, _) when eph key -> (impl_res i, Ok !y)
      | HP (_, id, x) ->
        let r = match put vlen le_dec !y.mem (b id) x with
          | Ok ((_, Stored), _) -> "ok" | Ok ((_, Refused), _) -> "refused" | Ok ((_, PruneErr), _) -> "err"
          | Err _ -> "err" | Panic -> "panic" in
        (r, step vlen vhead8 le_dec !y (OPut (b id, x)))
      | HG (_, id) -> (show_get !y id, step vlen vhead8 le_dec !y (OGet (b id)))
      | HR -> ("-", step vlen vhead8 le_dec !y OReopen) in
    (match nxt with
     | Ok y' -> y := y'; steps := observe res y' ids :: !steps
     | _ -> stop := Some i; raise Exit)) ops with Exit -> ());
  (List.rev !steps, !stop)

let hybrid_monitors (capmb : n) node ops (obs : obs list) : string list =
  let pairs = hpool ops in
  let cap = capmb *: k_bytesPerMB in
  let fails = ref [] in
  let fail k d = fails := (k ^ " " ^ d) :: !fails in
  let putvals = Hashtbl.create 16 in       (* id -> values put so far under a non-ephemeral key *)
  let prev = ref (obs0 (List.length pairs)) in
  List.iteri (fun i (o, ob) ->
    let prev_ = !prev in
    let over id x = (prev_.cnt +: n_ (List.length id + vlen_i x)) >: cap in
    (match o with HP (key, id, x) when not (eph key) -> Hashtbl.add putvals id (show_val x) | _ -> ());
    let unchanged () = (prev_.rads, sd prev_.cnt, prev_.recs, sd prev_.held, prev_.gets) = (ob.rads, sd ob.cnt, ob.recs, sd ob.held, ob.gets) in
    (* a get under a non-ephemeral key is served by the eternal store: found or not found, never an error *)
    List.iteri (fun j (_, id) ->
      if valid_id node id && List.nth ob.gets j = "err"
      then fail "hybrid-get-errors-for-non-ephemeral-key" (Printf.sprintf "step=%d pair#%d id=%s" i j (Util.hex_of_bytes id))) pairs;
    (match o with
     | HP (key, _, _) | HG (key, _) when eph key ->
       if not (unchanged ()) then fail "hybrid-ephemeral-operation-changed-eternal-store" (Printf.sprintf "step=%d" i)
     | HP (_, _, _) when ob.res = "refused" ->
       if not (unchanged ()) then fail "hybrid-refused-put-changed-state" (Printf.sprintf "step=%d" i)
     | HG (_, _) -> if not (unchanged ()) then fail "hybrid-get-changed-state" (Printf.sprintf "step=%d" i)
     | _ -> ());
    List.iteri (fun j (_, id) ->
      if valid_id node id then begin
        let g = List.nth ob.gets j and g0 = List.nth prev_.gets j in
        if g <> "nf" && not (List.mem g (Hashtbl.find_all putvals id))
        then fail "hybrid-get-returns-foreign-bytes" (Printf.sprintf "step=%d pair#%d got=%s" i j g);
        (match o with
         | HP (key, id', x) when not (eph key) && ob.res = "ok" && id' = id ->
           if g <> show_val x && not (g = "nf" && over id' x)
           then fail "hybrid-get-misses-accepted-put" (Printf.sprintf "step=%d pair#%d got=%s want=%s" i j g (show_val x))
         | HP (key, id', x) when not (eph key) && (ob.res = "ok" || ob.res = "err") ->
           if g <> g0 && not (g = "nf" && over id' x) then fail "hybrid-get-changed-by-put-of-other-id" (Printf.sprintf "step=%d pair#%d %s->%s" i j g0 g)
         | HR ->
           if g <> g0 && not (g = "nf" && rec_n prev_ >: cap) then fail "hybrid-get-changed-by-reopen" (Printf.sprintf "step=%d pair#%d %s->%s" i j g0 g)
         | _ -> ())
      end) pairs;
    (* the result of a get under a non-ephemeral key is the item stored under that id *)
    (match o with
     | HG (key, id) when not (eph key) && valid_id node id ->
       let rec find k = function [] -> -1 | (k', i') :: t -> if k' = key && i' = id then k else find (k + 1) t in
       let j = find 0 pairs in
       if j >= 0 && ob.res <> List.nth ob.gets j then fail "hybrid-get-result-inconsistent" (Printf.sprintf "step=%d" i);
       if ob.res <> "nf" && not (List.mem ob.res (Hashtbl.find_all putvals id)) then fail "hybrid-get-returns-foreign-bytes" (Printf.sprintf "step=%d got=%s" i ob.res);
       (* the same id through every other pair must read the same *)
       List.iteri (fun j' (_, id') -> if id' = id && List.nth ob.gets j' <> ob.res then fail "hybrid-get-depends-on-content-key" (Printf.sprintf "step=%d pair#%d" i j')) pairs
     | _ -> ());
    prev := ob) (List.combine ops obs);
  List.rev !fails

(* ---------------- recorded concurrent histories: exhaustive search for a linearization *)
let lin_parse_plan plan : (int list * v) list =
  List.concat (List.map (fun t -> List.filter_map (fun p -> match split ',' p with
    | [id; vl] -> Some (Util.bytes_of_hex id, parse_val vl) | _ -> None) (split ';' t)) (split '/' plan))
let lin_parse_events ev n : (int * int * string) list option =
  let evs = List.map (fun e -> match split '.' e with
    | [i; r; res] -> (match int_of_string_opt i, int_of_string_opt r with Some i, Some r -> Some (i, r, res) | _ -> None)
    | _ -> None) (split ';' ev) in
  if List.mem None evs || List.length evs <> n then None
  else Some (List.map (function Some x -> x | None -> assert false) evs)
(* an order of the puts that respects real time (responded-before-invoked) and under which the extracted sequential
   model gives every put its observed result and ends in the observed final state; returns (found, budget exceeded,
   number of puts, search nodes) *)
let lin_search (capmb : n) node puts evs fin : bool * bool * int * int =
  let ops = Array.of_list (List.map2 (fun (id, x) (i, r, res) -> (id, x, i, r, res)) puts evs) in
  let n = Array.length ops in
  let ids = List.rev (List.fold_left (fun acc (id, _) -> if List.mem id acc then acc else id :: acc) [] puts) in
  let y0 : v sys = init capmb k_contentDeletionPPM (b node) in
  let nodes = ref 0 in
  let rec search (y : v sys) (donemask : int) (cnt_done : int) : bool =
    incr nodes;
    if cnt_done = n then ("ok " ^ observe "-" y ids) = fin
    else if !nodes > 2000000 then false
    else begin
      let found = ref false in
      for a = 0 to n - 1 do
        if not !found && donemask land (1 lsl a) = 0 then begin
          let (id, x, inv, _, res) = ops.(a) in
          let ready = ref true in
          for c = 0 to n - 1 do
            if c <> a && donemask land (1 lsl c) = 0 then begin
              let (_, _, _, rc, _) = ops.(c) in if rc < inv then ready := false
            end
          done;
          if !ready then begin
            let r = match put vlen le_dec y.mem (b id) x with
              | Ok ((_, Stored), _) -> "ok" | Ok ((_, Refused), _) -> "refused" | _ -> "err" in
            if r = res then
              match step vlen vhead8 le_dec y (OPut (b id, x)) with
              | Ok y' -> if search y' (donemask lor (1 lsl a)) (cnt_done + 1) then found := true
              | _ -> ()
          end
        end
      done;
      !found
    end in
  let lin = search y0 0 0 in
  (lin, !nodes > 2000000, n, !nodes)

(* ---------------- handler *)
let handle fields impl : string option * string list =
  match fields with
  | ["rderr05"; capmb; node; opss] ->
    (* a restart during which the size record cannot be read (I/O error): NewStorage must refuse to start - it must not
       take the store for a fresh one - and a later healthy restart finds everything as it was.  Model: open is not
       reached (the database read fails), nothing changes; the final observation is the model's reopen. *)
    let capmb = (match n_of_dec_opt capmb with Some c -> c | None -> zero) and node = Util.bytes_of_hex node and ops = parse_ops opss in
    let ids = pool ops in
    let y = ref (init capmb k_contentDeletionPPM (b node)) in
    List.iter (fun o -> match o with
      | P (id, x) -> (match step vlen vhead8 le_dec !y (OPut (b id, x)) with Ok y' -> y := y' | _ -> ())
      | _ -> ()) ops;
    let m = match step vlen vhead8 le_dec !y OReopen with
      | Ok y' -> "openerr " ^ observe "-" y' ids
      | _ -> "openerr model-open-fails" in
    let mons = match split ' ' impl with
      | [outcome; fin] ->
        (if starts outcome "started" then
           (match split ',' outcome with
            | [_; cnt; rad] ->
              let held_model = held vlen !y.mem in
              [Printf.sprintf "reopen-with-read-error-starts-empty counter=%s radius=%s bytes-held-before=%s" cnt rad (sd held_model)]
            | _ -> ["reopen-with-read-error-starts " ^ outcome])
         else if outcome <> "openerr" then ["reopen-with-read-error-outcome-unparsable " ^ outcome] else []) @
        (match parse_obs ("ok " ^ fin) with
         | Some [ob] ->
           (if has_rec ob && rec_n ob <: ob.held then [Printf.sprintf "size-record-below-bytes-present-after-read-error-restart rec=%s held=%s" ob.recs (sd ob.held)] else []) @
           (if ob.recs = "none" && ob.held >: zero then ["size-record-missing-after-read-error-restart"] else [])
         | _ -> ["read-error-restart-observation-unparsable"])
      | _ -> ["read-error-restart-run-failed " ^ (if String.length impl > 100 then String.sub impl 0 100 else impl)] in
    (Some m, mons)
  | ["f05"; capmb; node; opss] ->
    (* a database that also holds a foreign key (not 32 bytes): outside the model, no comparison.  Accounting monitors
       on the implementation's observations: whatever Put returned - also an error out of a pruning pass that failed
       AFTER the item had been committed - the usage figure in memory and on disk covers the items held *)
    let ops = parse_ops opss in
    ignore capmb; ignore node;
    (match split_impl impl, parse_obs impl with
     | Some (_, _, _), Some obs ->
       let foreign = ref zero in
       let mons = ref [] in
       List.iteri (fun i (o, ob) ->
         (match o with X (k, x) -> foreign := !foreign +: n_ (List.length k + vlen_i x) | _ -> ());
         let items = N.sub ob.held !foreign in
         if items >: ob.cnt then mons := Printf.sprintf "counter-below-bytes-present step=%d counter=%s items-held=%s" i (sd ob.cnt) (sd items) :: !mons;
         if has_rec ob && items >: rec_n ob then mons := Printf.sprintf "size-record-below-bytes-present step=%d record=%s items-held=%s" i ob.recs (sd items) :: !mons;
         if has_rec ob && not (N.eqb (rec_n ob) ob.cnt) && ob.res <> "err" then mons := Printf.sprintf "size-record-differs-from-counter step=%d record=%s counter=%s" i ob.recs (sd ob.cnt) :: !mons)
         (List.combine (take_l (List.length obs) ops) obs);
       (None, List.rev !mons)
     | _ -> (None, ["foreign-key-history-unparsable " ^ (if String.length impl > 100 then String.sub impl 0 100 else impl)]))
  | ["y04"; capmb; node; opss] ->
    let capmb = (match n_of_dec_opt capmb with Some c -> c | None -> zero) and node = Util.bytes_of_hex node and ops = parse_hops opss in
    let pobs = parse_obs impl in
    let impl_res i = match pobs with Some l when i < List.length l -> (List.nth l i).res | _ -> "?" in
    let m = model_string (hybrid_model_run capmb node ops impl_res) impl in
    let mons = match split_impl impl, pobs with
      | Some (fail, _, _), Some obs ->
        let expected = (match fail with None -> List.length ops | Some f -> f) in
        if List.length obs <> expected then ["hybrid-history-observation-count"]
        else
          (match fail with
           | Some f -> [Printf.sprintf "hybrid-history-panics-fails-or-unparsable step=%d %s" f (if String.length impl > 120 then String.sub impl 0 120 else impl)]
           | None -> []) @ hybrid_monitors capmb node (take_l expected ops) obs
      | _ -> ["hybrid-history-panics-fails-or-unparsable " ^ (if String.length impl > 120 then String.sub impl 0 120 else impl)] in
    (Some m, mons)
  | [kind; capmb; node; opss] when String.length kind = 3 && (kind.[0] = 'h' || kind = "z04") ->
    let capmb = (match n_of_dec_opt capmb with Some c -> c | None -> zero) and node = Util.bytes_of_hex node and ops = parse_ops opss in
    let m = model_string (model_run le_dec capmb node ops) impl in
    (* Rule for ids outside the quantifier (the node id itself, ids of another length): the model is faithful there
       too - it mirrors the size record being overwritten, NewStorage panicking on a short record and NewStorage
       failing with `prune error, size < currentSize` - so model and implementation are compared step by step over the
       WHOLE history (a difference is a DIFF).  The property monitors, however, are evaluated only on the steps BEFORE
       the first put under an excluded id; and a history that fails (error or panic) is reported by the monitor only
       when it fails before such a put - with valid ids the theorems say it cannot fail. *)
    let rec first_excl i = function
      | [] -> max_int
      | P (id, _) :: _ when not (valid_id node id) -> i
      | _ :: t -> first_excl (i + 1) t in
    let excl = first_excl 0 ops in
    let short s = if String.length s > 120 then String.sub s 0 120 else s in
    let mons = match split_impl impl, parse_obs impl with
      | Some (fail, _, _), Some obs ->
        let expected = (match fail with None -> List.length ops | Some f -> f) in
        if List.length obs <> expected then ["history-observation-count"]
        else begin
          let failmon = match fail with
            | Some f when f < excl -> [Printf.sprintf "%s-history-panics-fails-or-unparsable step=%d %s" kind f (short impl)]
            | _ -> [] in
          let n = min excl expected in
          let ops_t = take_l n ops and obs_t = take_l n obs in
          failmon @
          (match kind with
           | "h04" -> c04_monitors capmb node ops_t obs_t
           | "z04" -> List.map (fun f -> "state-wrapper-" ^ f) (c04_monitors capmb node ops_t obs_t)
           | "h05" -> c05_monitors capmb node ops_t obs_t
           (* these two attribute failures by re-running the model on the whole history: only without excluded ids
              and without a failure *)
           | "h06" when n = List.length ops -> attribute_le capmb node ops impl (c06_raw node ops obs) "pebble-storage-distance-read-little-endian"
           | "h17" when n = List.length ops -> c17_monitors capmb node ops obs impl
           | _ -> [])
        end
      | _ -> [kind ^ "-history-panics-fails-or-unparsable " ^ short impl] in
    (Some m, mons)
  | ["crash"; capmb; node; opss; k] ->
    let capmb = (match n_of_dec_opt capmb with Some c -> c | None -> zero) and node = Util.bytes_of_hex node and ops = parse_ops opss and k = int_of_string k in
    let ids = pool ops in
    let pre = take_l k ops in
    (* the model state when the process dies *)
    let y = ref (init capmb k_contentDeletionPPM (b node)) in
    List.iter (fun o -> match o with
      | P (id, x) -> (match step vlen vhead8 le_dec !y (OPut (b id, x)) with Ok y' -> y := y' | _ -> ())
      | _ -> ()) pre;
    let lo = int_nat !y.synced and hi = List.length !y.disk in
    (* every allowed cut: reopen on the first c committed batches *)
    let allowed = List.init (hi - lo + 1) (fun i ->
      match step vlen vhead8 le_dec !y (OCrash (nat_ (lo + i))) with
      | Ok y' -> "ok " ^ observe "-" y' ids
      | _ -> "model-open-fails") in
    let m = if List.mem impl allowed then impl else Printf.sprintf "none-of-%d-allowed-cuts e.g. %s" (List.length allowed) (List.nth allowed (List.length allowed - 1)) in
    let mons = match parse_obs impl with
      | None -> ["crash-reopen-failed " ^ (if String.length impl > 100 then String.sub impl 0 100 else impl)]
      | Some [ob] ->
        let putvals = Hashtbl.create 16 in
        List.iter (function P (id, x) -> Hashtbl.add putvals id (show_val x) | _ -> ()) pre;
        let f = ref [] in
        List.iteri (fun j id ->
          let g = List.nth ob.gets j in
          if g <> "nf" && not (List.mem g (Hashtbl.find_all putvals id)) then f := Printf.sprintf "crash-reopen-returns-bytes-never-put id#%d got=%s" j g :: !f) ids;
        if ob.recs = "none" && ob.held >: zero then f := Printf.sprintf "crash-reopen-size-record-missing held=%s" (sd ob.held) :: !f;
        if ob.recs <> "none" && not (has_rec ob) then f := Printf.sprintf "crash-reopen-size-record-is-not-a-counter rec=%s" ob.recs :: !f;
        if has_rec ob && rec_n ob <: ob.held then f := Printf.sprintf "crash-reopen-size-record-below-held rec=%s held=%s" ob.recs (sd ob.held) :: !f;
        !f
      | Some _ -> ["crash-observation-shape"] in
    (Some m, mons)
  | ["fscrash"; capmb; node; opss; _k; variant] ->
    (* crash just before the k-th file-system operation; `done` puts had returned, `started` had been called.
       Allowed: NewStorage on ANY prefix of the committed batches between what the model knows to be durable after the
       completed puts and everything committed by the started ones (both for the image with unsynced writes dropped and
       for the one with all written bytes kept: pebble hands batches to its log writer asynchronously). *)
    let capmb = (match n_of_dec_opt capmb with Some c -> c | None -> zero) and node = Util.bytes_of_hex node and ops = parse_ops opss in
    let ids = pool ops in
    let parsed =
      if not (starts impl "ok ") then None else
      match split ' ' impl with
      | ["ok"; d; st; ob] -> (match int_of_string_opt d, int_of_string_opt st with Some d, Some st -> Some (d, st, "ok " ^ ob) | _ -> None)
      | _ -> None in
    (match parsed with
     | None -> (Some "ok <done> <started> <observation>", ["fs-crash-reopen-failed variant=" ^ variant ^ " " ^ (if String.length impl > 100 then String.sub impl 0 100 else impl)])
     | Some (d, st, obs_s) ->
       let run_puts n =
         let y = ref (init capmb k_contentDeletionPPM (b node)) in
         List.iter (fun o -> match o with
           | P (id, x) -> (match step vlen vhead8 le_dec !y (OPut (b id, x)) with Ok y' -> y := y' | _ -> ())
           | _ -> ()) (take_l n ops);
         !y in
       let yd = run_puts d and ys = run_puts st in
       let lo = int_nat yd.synced and hi = List.length ys.disk in
       let ys' = { ys with synced = nat_ lo } in
       let allowed = List.init (hi - lo + 1) (fun i ->
         match step vlen vhead8 le_dec ys' (OCrash (nat_ (lo + i))) with
         | Ok y' -> "ok " ^ observe "-" y' ids
         | _ -> "model-open-fails") in
       let m = if List.mem obs_s allowed then impl
               else Printf.sprintf "none-of-%d-allowed-cuts[%d..%d] e.g. %s" (List.length allowed) lo hi (List.nth allowed (List.length allowed - 1)) in
       let mons = match parse_obs obs_s with
         | Some [ob] ->
           let putvals = Hashtbl.create 16 in
           List.iter (function P (id, x) -> Hashtbl.add putvals id (show_val x) | _ -> ()) (take_l st ops);
           let f = ref [] in
           let fl s = f := (s ^ " variant=" ^ variant) :: !f in
           List.iteri (fun j id ->
             let g = List.nth ob.gets j in
             if g <> "nf" && not (List.mem g (Hashtbl.find_all putvals id)) then fl (Printf.sprintf "fs-crash-reopen-returns-bytes-never-put id#%d got=%s" j g)) ids;
           if ob.recs = "none" && ob.held >: zero then fl (Printf.sprintf "fs-crash-reopen-size-record-missing held=%s" (sd ob.held));
           if ob.recs <> "none" && not (has_rec ob) then fl (Printf.sprintf "fs-crash-reopen-size-record-is-not-a-counter rec=%s" ob.recs);
           if has_rec ob && rec_n ob <: ob.held then fl (Printf.sprintf "fs-crash-reopen-size-record-below-held rec=%s held=%s" ob.recs (sd ob.held));
           if has_rec ob && not (N.eqb (rec_n ob) ob.cnt) then fl (Printf.sprintf "fs-crash-reopen-counter-differs-from-record rec=%s counter=%s" ob.recs (sd ob.cnt));
           (* radius rule on what was reopened: above 95 percent the farthest retained key (the code reads it little-endian,
              known finding - only checked here through the model comparison), the maximum otherwise *)
           let thr_ = capmb *: (N.sub k_bytesPerMB k_contentDeletionPPM) in
           if not (rec_n ob >: thr_) && not (rec_n ob >: (capmb *: k_bytesPerMB)) && ob.rads <> hexn mAXD && not (List.mem obs_s allowed)
           then fl (Printf.sprintf "fs-crash-reopen-radius-not-max-below-95-percent size=%s radius=%s" ob.recs ob.rads);
           if not (List.mem obs_s allowed) then fl (Printf.sprintf "fs-crash-state-is-no-allowed-cut done=%d started=%d cuts=%d..%d" d st lo hi);
           List.rev !f
         | _ -> ["fs-crash-observation-shape variant=" ^ variant] in
       (Some m, mons))
  | ["lin"; capmb; node; plan] ->
    let capmb = (match n_of_dec_opt capmb with Some c -> c | None -> zero) and node = Util.bytes_of_hex node in
    let puts = lin_parse_plan plan in
    let parsed = match split ' ' impl with
      | ["ok"; ev; fin] -> (match lin_parse_events ev (List.length puts) with Some evs -> Some (evs, "ok " ^ fin) | None -> None)
      | _ -> None in
    (match parsed with
     | None -> (Some "ok <events> <final>", ["concurrent-history-run-failed-or-unparsable " ^ (if String.length impl > 100 then String.sub impl 0 100 else impl)])
     | Some (evs, fin) ->
       let (lin, budget, n, nodes) = lin_search capmb node puts evs fin in
       let m = if lin then impl else if budget then "linearization-search-budget-exceeded" else "no-linearization-of-this-history" in
       let cap = capmb *: k_bytesPerMB in
       let small = List.for_all (fun (id, x) -> n_ (List.length id + vlen_i x) <=: (capmb *: k_contentDeletionPPM)) puts in
       let mons =
         (if not lin && not budget then [Printf.sprintf "concurrent-history-not-linearizable puts=%d searched=%d" n nodes] else []) @
         (match parse_obs fin with
          | Some [ob] ->
            (if has_rec ob && ob.held >: rec_n ob then [Printf.sprintf "concurrent-puts-held-exceeds-size-record held=%s rec=%s" (sd ob.held) ob.recs] else []) @
            (if ob.held >: ob.cnt then [Printf.sprintf "concurrent-puts-held-exceeds-counter held=%s counter=%s" (sd ob.held) (sd ob.cnt)] else []) @
            (if small && ob.held >: cap then [Printf.sprintf "held-exceeds-capacity-after-quiescence held=%s cap=%s" (sd ob.held) (sd cap)] else [])
          | _ -> ["concurrent-history-final-observation-unparsable"]) in
       (Some m, mons))
  | ["rpc06"; _key; radius; dists] ->
    (* the Store RPC over a backend that accepts everything: its verdict must be the in-range rule of the property
       (XOR distance, big-endian, strictly below the advertised radius), evaluated by the extracted in_range_spec *)
    (match split ' ' impl with
     | ["ok"; nid; verdicts] when is_hex radius ->
       let node = b (Util.bytes_of_hex nid) and rad = n_hex radius in
       let ds = split ',' dists and vs = split ',' verdicts in
       if List.length ds <> List.length vs then (None, ["store-rpc-observation-count"]) else
       let expect = List.map (fun d ->
         let id = List.map2 (fun x y -> x lxor y) (Util.bytes_of_hex d) (ub node) in
         if in_range_spec node rad (b id) then "1" else "0") ds in
       let mons = List.concat (List.mapi (fun i ((d, v), e) ->
         if v <> e then [Printf.sprintf "store-rpc-disagrees-with-in-range-rule #%d distance=%s radius=%s rpc=%s rule=%s" i d radius v e] else [])
         (List.combine (List.combine ds vs) expect)) in
       (Some ("ok " ^ nid ^ " " ^ String.concat "," expect), mons)
     | _ -> (Some "ok <node id> <verdicts>", ["store-rpc-run-failed-or-unparsable " ^ (if String.length impl > 100 then String.sub impl 0 100 else impl)]))
  | ["node06"; _capmb; _key; opss] ->
    (* node level: PortalProtocol.InRange (the rule of the Store RPC and, through p.Radius(), of the offer filters) must
       give the verdict of the store's own admission for the same id, and the radius the node works with must be the
       store's.  Ids whose storage keys are palindromes: big- and little-endian readings coincide (independent of the
       known finding).  Implementation observations only. *)
    let ops = split ';' opss in
    (match split_impl impl with
     | Some (None, _, body) when List.length (split ';' body) = List.length ops ->
       let mons = List.concat (List.mapi (fun i (o, st) ->
         let f = split ',' st in
         let radii nr sr = if nr <> sr then [Printf.sprintf "node-radius-differs-from-store-radius step=%d op=%s node=%s store=%s" i o nr sr] else [] in
         match (split ',' o), f with
         | "q" :: _, [inr; adm; nr; sr] ->
           (if inr <> adm then [Printf.sprintf "node-in-range-disagrees-with-store-admission step=%d op=%s in-range=%s admitted=%s node-radius=%s store-radius=%s" i o inr adm nr sr] else []) @ radii nr sr
         | "s" :: _, [_; nr; sr] -> radii nr sr
         | "r" :: _, [nr; sr] -> radii nr sr
         | _ -> [Printf.sprintf "node-history-step-unparsable step=%d" i]) (List.combine ops (split ';' body))) in
       (None, mons)
     | _ -> (None, ["node-history-failed-or-unparsable " ^ (if String.length impl > 100 then String.sub impl 0 100 else impl)]))
  | ["gate17"; capmb; node; plan] ->
    (* a put issued while a prune waits for its WAL fsync: the recorded history must be linearizable w.r.t. the
       sequential model, and the size record must cover the bytes present - live and after close + reopen *)
    let capmb = (match n_of_dec_opt capmb with Some c -> c | None -> zero) and node = Util.bytes_of_hex node in
    let puts = lin_parse_plan plan in
    let parsed = match split ' ' impl with
      | ["ok"; ev; fin; re; during] ->
        (match lin_parse_events ev (List.length puts) with Some evs -> Some (evs, "ok " ^ fin, "ok " ^ re, during) | None -> None)
      | _ -> None in
    (match parsed with
     | None -> (Some "ok <events> <final> <reopened> <during>", ["gated-prune-history-run-failed-or-unparsable " ^ (if String.length impl > 100 then String.sub impl 0 100 else impl)])
     | Some (evs, fin, re, during) ->
       let (lin, budget, n, nodes) = lin_search capmb node puts evs fin in
       let m = if lin then impl else if budget then "linearization-search-budget-exceeded" else "no-linearization-of-this-history" in
       let chk what o = match parse_obs o with
         | Some [ob] ->
           (if has_rec ob && rec_n ob <: ob.held then [Printf.sprintf "size-record-below-bytes-present-after-put-during-prune at=%s rec=%s held=%s put-returned-during-fsync=%s" what ob.recs (sd ob.held) during] else []) @
           (if ob.recs = "none" && ob.held >: zero then [Printf.sprintf "size-record-missing-after-put-during-prune at=%s" what] else []) @
           (if what = "live" && ob.held >: ob.cnt then [Printf.sprintf "counter-below-bytes-present-after-put-during-prune counter=%s held=%s" (sd ob.cnt) (sd ob.held)] else [])
         | _ -> ["gated-prune-observation-unparsable at=" ^ what] in
       let mons =
         (if not lin && not budget then [Printf.sprintf "concurrent-history-not-linearizable puts=%d searched=%d put-returned-during-fsync=%s" n nodes during] else []) @
         chk "live" fin @ chk "reopened" re in
       (Some m, mons))
  | ["lin06"; capmb; node; plan; _gate] ->
    (* C06 over a recorded concurrent history: linearizable w.r.t. the sequential model, every retained item within
       the advertised radius at quiescence, and the sampled radius never grows.  Ids 00..00 xx against node 0: the
       little-endian reading of the code orders this family exactly as the key order (independent of the known finding). *)
    let capmb = (match n_of_dec_opt capmb with Some c -> c | None -> zero) and node = Util.bytes_of_hex node in
    let puts = lin_parse_plan plan in
    let parsed = match split ' ' impl with
      | ["ok"; ev; fin; mid; samples] ->
        (match lin_parse_events ev (List.length puts) with
         | Some evs when List.for_all is_hex (split '>' samples) -> Some (evs, "ok " ^ fin, "ok " ^ mid, List.map n_hex (split '>' samples))
         | _ -> None)
      | _ -> None in
    (match parsed with
     | None -> (Some "ok <events> <final> <mid> <radius samples>", ["concurrent-radius-history-run-failed-or-unparsable " ^ (if String.length impl > 100 then String.sub impl 0 100 else impl)])
     | Some (evs, fin, mid, samples) ->
       let (lin, budget, n, nodes) = lin_search capmb node puts evs fin in
       let m = if lin then impl else if budget then "linearization-search-budget-exceeded" else "no-linearization-of-this-history" in
       let ids = List.rev (List.fold_left (fun acc (id, _) -> if List.mem id acc then acc else id :: acc) [] puts) in
       let family = List.for_all (fun id -> valid_id node id && (match List.rev (ub (key_of node id)) with _ :: r -> List.for_all (fun x -> x = 0) r | [] -> false)) ids in
       let mons =
         (if not lin && not budget then [Printf.sprintf "concurrent-history-not-linearizable puts=%d searched=%d" n nodes] else []) @
         (let rec grew = function
            | a :: (c :: _ as t) -> if N.ltb a c then Some (a, c) else grew t
            | _ -> None in
          match grew samples with
          | Some (a, c) -> [Printf.sprintf "radius-grew %s->%s" (hexn a) (hexn c)]
          | None -> []) @
         (let within what o = match parse_obs o with
            | Some [ob] when family ->
              List.concat (List.mapi (fun j id ->
                if List.nth ob.gets j <> "nf" && not (N.leb (le_dec (key_of node id)) ob.radius)
                then [Printf.sprintf "retained-item-beyond-radius-after-concurrent-puts at=%s id=%s radius=%s" what (Util.hex_of_bytes id) ob.rads] else []) ids)
            | Some [_] -> []
            | _ -> ["concurrent-history-observation-unparsable at=" ^ what] in
          within "quiescence-after-race" mid @ within "end" fin) in
       (Some m, mons))
  | ["xor"; id; node] ->
    let m = match xor_key (b (Util.bytes_of_hex id)) (b (Util.bytes_of_hex node)) with
      | Ok k -> "ok " ^ Util.hex_of_bytes (ub k) | Err _ -> "err" | Panic -> "panic" in
    let impl' = if starts impl "panic" then "panic" else impl in
    ((if m = impl' then None else Some m), [])
  | ["thr"; capmb] ->
    (match n_of_dec_opt capmb with
     | None -> (Some "driver: capacity is not a decimal number", [])
     | Some c ->
       let y : v sys = init c k_contentDeletionPPM (b []) in
       (Some (Printf.sprintf "ok %s %s" (dec_of_n (expect y.mem)) (dec_of_n (thr y.mem))), []))
  | ["retainx"; _] ->
    (* by value size class; the detail names the classes whose handed-out bytes changed *)
    (match (try Scanf.sscanf impl "ok checked=%d changed=%d classes=%s" (fun k c cl -> Some (k, c, cl)) with _ -> None) with
     | Some (k, 0, _) when k > 0 -> (None, [])
     | Some (_, c, cl) -> (None, [Printf.sprintf "get-returned-slice-changed-later size-classes(bytes:slices)=%s changed=%d" cl c])
     | None -> (None, ["get-returned-slice-check-failed " ^ impl]))
  | ["retain"; _; _; _; _] ->
    (* memory lifetime of the bytes handed out by Get: outside the Gallina model, monitor only *)
    let changed = try Scanf.sscanf impl "ok checked=%d changed=%d" (fun _ c -> c) with _ -> -1 in
    (None, if changed = 0 then [] else ["get-returned-slice-changed-later " ^ impl])
  | ["conc"; capmb; _; _; vl; _] ->
    let field name =            (* "name=<decimal>" in the observation, as an arbitrary-precision number *)
      List.fold_left (fun acc w -> match split '=' w with [k; x] when k = name -> n_of_dec_opt x | _ -> acc) None (split ' ' impl) in
    (match n_of_dec_opt capmb, n_of_dec_opt vl, field "held", field "rec", field "cnt", field "errs" with
     | Some cm, Some vl, Some held, Some rc, Some cnt, Some errs when starts impl "ok " ->
       let cap = cm *: k_bytesPerMB in
       let small = (n_ 32 +: vl) <=: (cm *: k_contentDeletionPPM) in
       (None,
        (if held >: rc then [Printf.sprintf "concurrent-puts-held-exceeds-size-record held=%s rec=%s" (sd held) (sd rc)] else []) @
        (if held >: cnt then [Printf.sprintf "concurrent-puts-held-exceeds-counter held=%s counter=%s" (sd held) (sd cnt)] else []) @
        (if small && held >: cap then [Printf.sprintf "held-exceeds-capacity-after-quiescence held=%s cap=%s" (sd held) (sd cap)] else []) @
        (if errs >: zero then [Printf.sprintf "concurrent-puts-prune-error errs=%s" (sd errs)] else []))
     | _ -> (None, ["concurrent-puts-run-failed-or-unparsable " ^ impl]))
  | ["inr"; node; radius; cid] ->
    let node = b (Util.bytes_of_hex node) and cid = b (Util.bytes_of_hex cid) and radius = n_hex radius in
    let code = match in_range_code node radius cid with Ok true -> "ok true" | Ok false -> "ok false" | Err _ -> "err" | Panic -> "panic" in
    let impl' = if starts impl "panic" then "panic" else impl in
    let mons =
      if List.length cid <> 32 then []
      else begin
        let spec = if in_range_spec node radius cid then "ok true" else "ok false" in
        let old = match in_range_logdist node radius cid with Ok true -> "ok true" | Ok false -> "ok false" | _ -> "panic" in
        if impl' = spec then []
        else if impl' = old then ["inrange-compares-log-distance spec=" ^ spec ^ " impl=" ^ impl']
        else ["inrange-differs-from-xor-rule spec=" ^ spec ^ " impl=" ^ impl']
      end in
    ((if code = impl' then None else Some code), mons)
  | _ -> (Some "driver: unknown line", [])

let () = Util.run handle
