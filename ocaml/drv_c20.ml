(* drv_c20.ml : model side of the C20 correspondence (radius cache history, gossip target selection) and monitors.
   The cache is never read from the implementation to drive the model: the model folds the ping/pong events itself and
   the implementation's read-back after every event must agree.  For a gossip call the driver reconstructs a candidate
   sort order (ties in log distance) and shuffle from the implementation's answer and runs the extracted model with them;
   the model re-checks both witnesses (pick_sorted / pick_perm). *)
open C20_model
let n_ (k : int) : n = Obj.magic (Util.n_of_int k)
let nhex (s : string) : n = Obj.magic (Util.n_of_hex s)
let int_n (x : n) : int = Util.int_of_n (Obj.magic x)
let hex_n (x : n) : string = Util.hex_of_n (Obj.magic x)
let nat_ (k : int) : nat = Obj.magic (Util.nat_of_int k)
let split c s = String.split_on_char c s
let starts s p = String.length s >= String.length p && String.sub s 0 (String.length p) = p

let parse_rec (s : string) : nrec =
  match split ':' s with
  | tag :: id :: fl :: port :: size :: valid :: _ ->
    { rtag = n_ (int_of_string tag); rid = nhex id; rflags = n_ (int_of_string fl); rport = n_ (int_of_string port);
      rsize = n_ (int_of_string size); rvalid = (valid = "1") }
  | _ -> failwith ("bad record " ^ s)
let tag_of (r : nrec) = int_n r.rtag
let show_tags (l : nrec list) = match l with [] -> "." | _ -> String.concat "," (List.map (fun r -> string_of_int (tag_of r)) l)
let rec take k l = if k = 0 then [] else match l with [] -> [] | x :: t -> x :: take (k - 1) t
let rec drop k l = if k = 0 then l else match l with [] -> [] | _ :: t -> drop (k - 1) t
let mem_rec r l = List.exists (rec_eqb r) l

let supported_of = function
  | "history" -> k_ext_history | "state" -> k_ext_state | "beacon" -> k_ext_beacon | _ -> k_ext_default

let show_cache c id = match cache_get c id with
  | None -> "c=none" | Some RBad -> "c=bad" | Some (RGood r) -> "c=" ^ hex_n r

(* monitors for one gossip call, on the implementation's answer *)
let gossip_monitors nodelist cache src cid (ret : nrec option list) (off : nrec option list) partial (events : event list) supported : string list =
  let fails = ref [] in
  let add k = if not (List.mem k !fails) then fails := k :: !fails in
  if List.exists (fun x -> x = None) ret || List.exists (fun x -> x = None) off then add "gossip-unknown-node target-is-not-a-table-entry";
  let r = List.filter_map (fun x -> x) ret and o = List.filter_map (fun x -> x) off in
  if List.length ret > 8 then add (Printf.sprintf "gossip-more-than-8 n=%d" (List.length ret));
  if List.length off > 8 then add (Printf.sprintf "gossip-more-than-8 offers=%d" (List.length off));
  if partial then add "gossip-partial-batch an-offer-does-not-carry-every-key";
  List.iter (fun x -> if not (mem_rec x r) then add (Printf.sprintf "gossip-offer-to-unreturned-node tag=%d" (tag_of x))) o;
  let dtab = Hashtbl.create 512 in
  List.iter (fun (x : nrec) -> Hashtbl.replace dtab (tag_of x) (int_n (logdist x.rid cid))) nodelist;
  let dist (x : nrec) = try Hashtbl.find dtab (tag_of x) with Not_found -> int_n (logdist x.rid cid) in
  let hist = Array.make 258 0 in
  List.iter (fun x -> let d = dist x in hist.(d) <- hist.(d) + 1) nodelist;
  let closer_than d = let s = ref 0 in for i = 0 to d - 1 do s := !s + hist.(i) done; !s in
  (* among the 32 nearest: fewer than 32 table nodes are strictly closer *)
  List.iter (fun (x : nrec) ->
    let closer = closer_than (dist x) in
    if closer >= 32 then add (Printf.sprintf "gossip-not-among-32-nearest tag=%d" (tag_of x));
    (match src with Some s when hex_n s = hex_n x.rid -> add (Printf.sprintf "gossip-to-source tag=%d" (tag_of x)) | _ -> ());
    (match cache_get cache x.rid with
     | None -> add (Printf.sprintf "gossip-unknown-radius tag=%d" (tag_of x))
     | Some RBad -> add (Printf.sprintf "gossip-unknown-radius tag=%d malformed-entry" (tag_of x))
     | Some (RGood rad) ->
       if not (in_range x.rid rad cid) then add (Printf.sprintf "gossip-not-covered tag=%d" (tag_of x));
       (* the radius used is the one last reported (events are the ground truth, independent of the model's cache) *)
       (match last_reported supported events x.rid with
        | Some lr when hex_n lr <> hex_n rad -> add (Printf.sprintf "radius-cache-stale tag=%d" (tag_of x))
        | _ -> ()))) (r @ o);
  (* the first min(4, n) are the closest covered ones in order: no covered node strictly closer than one of the first four is left out,
     and the first four are in non-decreasing distance *)
  let first = take 4 r in
  let rec nondecr = function a :: (b :: _ as t) -> dist a <= dist b && nondecr t | _ -> true in
  if not (nondecr first) then add "gossip-closest-skipped first-four-not-in-distance-order";
  let covered = List.filter (fun x -> covered_b cache src cid x) nodelist in
  let covered32 = List.filter (fun x -> closer_than (dist x) < 32) covered in
  List.iter (fun (x : nrec) ->
    if not (mem_rec x first) then begin
      let strictly_farther_chosen = List.exists (fun f -> dist f > dist x) first in
      if strictly_farther_chosen then add (Printf.sprintf "gossip-closest-skipped tag=%d" (tag_of x))
      else if List.length first < 4 && List.length first < List.length covered32 &&
              (* fewer than four chosen although a covered node certainly inside the 32 nearest exists *)
              closer_than (dist x + 1) <= 32 then
        add (Printf.sprintf "gossip-closest-skipped tag=%d fewer-than-four" (tag_of x))
    end) covered32;
  List.rev !fails

let handle fields impl : string option * string list =
  match fields with
  | ["gs"; _; proto; permits; _; _; ";"; absops] ->
    let supported = supported_of proto in
    let permits = int_of_string permits in
    let ops = split '+' absops in
    let impl_obs = Array.of_list (List.map String.trim (split '+' impl)) in
    let cache = ref [] and events = ref [] in
    let mons = ref [] in
    let outs = List.mapi (fun i op ->
      let iobs = if i < Array.length impl_obs then impl_obs.(i) else "" in
      match split '~' op with
      | ["N"] -> iobs
      | ["N"; id] -> show_cache !cache (nhex id)      (* undecodable message / table deletion: no effect on the cache *)
      | ["E"; pong; id; present; ptype; rad; own] ->
        let e = { ev_pong = (pong = "1"); ev_id = nhex id; ev_present = (present = "1"); ev_ptype = n_ (int_of_string ptype);
                  ev_radius = (if rad = "x" || rad = "bad" then None else Some (nhex rad)) } in
        cache := process_event supported !cache e;
        events := !events @ [e];
        let m = show_cache !cache e.ev_id in
        let (icache, ipong) = (match split ';' iobs with [a; b] -> (a, Some b) | _ -> (iobs, None)) in
        (* monitor: the cached radius is the one last reported while in the table *)
        (match last_reported supported !events e.ev_id with
         | Some lr -> if icache <> "c=" ^ hex_n lr then mons := (Printf.sprintf "radius-cache-stale op=%d cached=%s last-reported=%s" i icache (hex_n lr)) :: !mons
         | None -> ());
        if own = "-" then m else begin
          (* the PONG this node answered the ping with: type and announced radius *)
          let ownr = nhex own in
          let (pt, pr) = pong_of_ping supported e.ev_ptype (e.ev_radius <> None) ownr in
          let mp = Printf.sprintf "p=%d:%s" (int_n pt) (match pr with Some r -> hex_n r | None -> "x") in
          (* monitor: an announced radius is the storage's current radius *)
          (match ipong with
           | Some ip -> (match split ':' ip with
               | [_; r] when r <> "x" && r <> "bad" && r <> hex_n ownr ->
                 mons := (Printf.sprintf "announced-radius-not-current op=%d pong=%s storage-radius=%s" i ip (hex_n ownr)) :: !mons
               | _ -> ())
           | None -> ());
          m ^ ";" ^ mp
        end
      | ["A"; id; added] ->
        let idn = nhex id in
        cache := process_add_enr !cache idn (added = "1");
        if added = "1" then
          (* the assumed maximum is not a report: forget the history of that id for the stale-monitor *)
          events := List.filter (fun e -> hex_n e.ev_id <> hex_n idn) !events
        else
          (* re-adding a node that is in the table must not touch what it reported *)
          (match last_reported supported !events idn with
           | Some lr -> if iobs <> "c=" ^ hex_n lr then mons := (Printf.sprintf "radius-cache-stale op=%d add-enr-of-a-table-node-changed-its-radius cached=%s last-reported=%s" i iobs (hex_n lr)) :: !mons
           | None -> ());
        show_cache !cache idn
      | ["B"; id; v] ->
        cache := (nhex id, (if v = "bad" then RBad else RGood (nhex v))) :: !cache;
        (* a direct write is not a report: forget the history of that id for the stale-monitor *)
        events := List.filter (fun e -> hex_n e.ev_id <> hex_n (nhex id)) !events;
        show_cache !cache (nhex id)
      | ["G"; src; cid; nc; nk; recs] ->
        let nodelist = if recs = "." then [] else List.map parse_rec (split ',' recs) in
        let src = if src = "-" then None else Some (nhex src) in
        let cid = nhex cid in
        let find t = if t = "?" then None else List.find_opt (fun r -> tag_of r = int_of_string t) nodelist in
        let parse_tl s = if s = "." then [] else List.map find (split ',' s) in
        let (ret, off, partial, is_ok) = match split '~' iobs with
          | "ok" :: r :: o :: rest -> (parse_tl r, parse_tl o, rest <> [], true)
          | _ -> ([], [], false, false) in
        let r = List.filter_map (fun x -> x) ret in
        (* witness for sort.Slice *)
        let dtab = Hashtbl.create 512 in
        List.iter (fun (x : nrec) -> Hashtbl.replace dtab (tag_of x) (int_n (logdist x.rid cid))) nodelist;
        let dist (x : nrec) = Hashtbl.find dtab (tag_of x) in
        (* ties: the returned nodes first (in the order returned), then nodes that are not gossip candidates anyway, and the
           covered nodes the implementation did not return last (at the boundary of the 32 nearest they were evidently left out) *)
        let cur = !cache in
        let rank (x : nrec) =
          let rec pos i = function
            | [] -> (match cache_get cur x.rid with
                | Some RBad -> if is_ok then 3000 else 0      (* an error answer: a malformed entry was among the 32 nearest *)
                | _ -> if covered_b cur src cid x then 2000 else 1000)
            | y :: t -> if rec_eqb x y then i else pos (i + 1) t in pos 0 r in
        let rtab = Hashtbl.create 512 in
        List.iter (fun (x : nrec) -> Hashtbl.replace rtab (tag_of x) (rank x)) nodelist;
        let rk (x : nrec) = Hashtbl.find rtab (tag_of x) in
        let w = List.stable_sort (fun x y -> compare (dist x, rk x) (dist y, rk y)) nodelist in
        let srt = pick_sorted cid w in
        let closest = find_nodes_close nodelist srt gossip_candidates in
        let shuf g =
          let want = drop 4 r in
          pick_perm (Some (List.filter (fun x -> mem_rec x g) want @ List.filter (fun x -> not (mem_rec x want)) g)) g in
        ignore closest;
        let res = gossip_select nodelist srt shuf !cache src cid (n_ (int_of_string nc)) (n_ (int_of_string nk)) in
        let m = (match res with
            | Ok l -> "ok~" ^ show_tags l ^ "~" ^ show_tags (gossip_offers l (nat_ permits))
            | Err _ -> "err" | Panic -> "panic") in
        if is_ok then mons := List.rev_append (List.rev (gossip_monitors nodelist !cache src cid ret off partial !events supported)) !mons;
        (* compare err* as equal, panic as prefix *)
        if starts iobs "panic" && m = "panic" then iobs else if starts iobs "err" && m = "err" then iobs else m
      | _ -> "driver: unknown op " ^ op) ops in
    (Some (String.concat "+" outs), List.rev !mons)
  | "gs-unobserved" :: _ -> (None, [])   (* ping processing did not finish within a minute: proves nothing either way *)
  | _ -> (Some "driver: unknown line", [])

let () = Util.run handle
