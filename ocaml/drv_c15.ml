(* drv_c15.ml : model side of the C15 correspondence, and monitors over implementation observations *)
open C15_model
let b (l : int list) : byte list = Obj.magic l
let ub (l : byte list) : int list = Obj.magic l
let bl (l : int list list) : byte list list = Obj.magic l
let ubl (l : byte list list) : int list list = Obj.magic l
let n_ (k : int) : n = Obj.magic (Util.n_of_int k)
let int_n (x : n) : int = Util.int_of_n (Obj.magic x)

let show_items = function
  | Ok l -> "ok " ^ Util.string_of_items (ubl l)
  | Err e -> Printf.sprintf "err %d" (int_n e)
  | Panic -> "panic"
let show_bytes = function
  | Ok l -> "ok " ^ Util.hex_of_bytes (ub l)
  | Err e -> Printf.sprintf "err %d" (int_n e)
  | Panic -> "panic"

let rec is_prefix (a : int list list) (b : int list list) = match a, b with
  | [], _ -> true
  | x :: a', y :: b' -> x = y && is_prefix a' b'
  | _ -> false

let starts s p = String.length s >= String.length p && String.sub s 0 (String.length p) = p

(* Monitors on decoder observations.  By C15_image / framed_decodes the model decoder accepts exactly the framed
   streams (ok l <-> framed data l) and by C15_single_item_exact the single-item decoder accepts exactly h ++ c;
   so an implementation that returns ok with anything else has split a stream "differently" (or accepted a
   malformed one), and one that rejects encode(l) breaks the inverse law.  Non-canonical varints that the
   implementation might start rejecting are NOT flagged (the property does not require accepting them). *)
let dec_monitors what (model : string) (impl : string) (canonical : bool) : string list =
  if starts impl "ok" && impl <> model then [what ^ "-accepts-malformed impl=" ^ impl ^ " spec=" ^ model]
  else if starts impl "panic" then [what ^ "-panics " ^ impl]
  else if starts impl "err" && starts model "ok" && canonical then [what ^ "-rejects-canonical-encoding spec=" ^ model]
  else []

let handle fields impl : string option * string list =
  match fields with
  | ["enc"; items] ->
    let l = Util.items_of_string items in
    (Some (Util.hex_of_bytes (ub (encode_contents (bl l)))), [])
  | ["encn"; items] ->
    let m = Util.hex_of_bytes (ub (encode_contents (bl (Util.items_of_string items)))) in
    (Some m, if impl = m then [] else ["empty-item-spelled-nil-dropped-or-misencoded"])
  | ["rejoin"; items] ->
    (* join(split(join l)) = join l, twice over the same split items, and the split items are still l *)
    let m = Util.hex_of_bytes (ub (encode_contents (bl (Util.items_of_string items)))) in
    let spec = m ^ " " ^ m ^ " " ^ items in
    (Some spec, if impl = spec then [] else if starts impl "err" then ["roundtrip decode(encode l) fails"] else ["join-of-split-items-differs-or-modified-its-input"])
  | ["hold"; items; _] ->
    (* the payload joined from [items], observed after later joins of other lists: still encode(items), and it still splits to items *)
    let m = Util.hex_of_bytes (ub (encode_contents (bl (Util.items_of_string items)))) in
    (Some m, if impl = m then [] else ["joined-payload-changed-by-later-join"])
  | ["dec"; h] ->
    let data = b (Util.bytes_of_hex h) in
    let r = decode_contents data in
    let m = show_items r in
    let canonical = match r with Ok l -> ub (encode_contents l) = ub data | _ -> false in
    (Some m, dec_monitors "decode-contents" m impl canonical)
  | ["dec1"; h] ->
    let m = match decode_single (b (Util.bytes_of_hex h)) with
      | Ok (c, r) -> "ok " ^ Util.hex_of_bytes (ub c) ^ " " ^ Util.hex_of_bytes (ub r)
      | Err e -> Printf.sprintf "err %d" (int_n e)
      | Panic -> "panic" in
    (Some m, dec_monitors "decode-single" m impl false)
  | ["utpenc"; v; h] ->
    (Some ("ok " ^ Util.hex_of_bytes (ub (encode_utp_content (n_ (int_of_string v)) (b (Util.bytes_of_hex h))))), [])
  | ["utpdec"; v; h] ->
    let data = b (Util.bytes_of_hex h) in
    let ver = n_ (int_of_string v) in
    let r = decode_utp_content ver data in
    let m = show_bytes r in
    let canonical = match r with Ok c -> ub (encode_utp_content ver c) = ub data | _ -> false in
    (Some m, dec_monitors "single-item-stream" m impl canonical)
  | ["hoc"; nk; h] ->
    (* handleOfferedContents: enqueue iff the whole stream decodes to exactly nk items (C15_offered_contents_whole_stream) *)
    let data = b (Util.bytes_of_hex h) in
    let m = (match handle_offered_contents (Obj.magic (Util.nat_of_int (int_of_string nk))) data with
      | Ok (Some l) -> "ok " ^ Util.string_of_items (ubl l)
      | Ok None -> "ok none"
      | Err e -> Printf.sprintf "err %d" (int_n e)
      | Panic -> "panic") in
    let fails =
      if starts impl "ok" && impl <> m then ["offered-contents-enqueued-from-malformed-or-miscounted-stream impl=" ^ impl ^ " spec=" ^ m]
      else if starts impl "panic" then ["offered-contents-panics " ^ impl]
      else if starts impl "err" && starts m "ok" then ["offered-contents-rejects-wellformed-stream spec=" ^ m]
      else [] in
    (Some m, fails)
  (* monitors: statements of the property evaluated on implementation observations only *)
  | ["rt"; items] ->
    (* C15_roundtrip on the implementation: decode(encode l) = l *)
    (None, if impl = "ok " ^ items then [] else ["roundtrip decode(encode l) <> l, got " ^ impl])
  | ["utprt"; _; h] ->
    (None, if impl = "ok " ^ h then [] else ["utp-roundtrip got " ^ impl])
  | ["trunc"; items; cut] ->
    (* C15_truncation on the implementation: decoding a proper prefix errors or yields a prefix l' of l with enc l' = the prefix *)
    let l = Util.items_of_string items in
    let enc = ub (encode_contents (bl l)) in
    let cutn = int_of_string cut in
    let rec take k l = if k = 0 then [] else match l with [] -> [] | x :: t -> x :: take (k - 1) t in
    let p = take cutn enc in
    if String.length impl >= 3 && String.sub impl 0 3 = "err" then (None, [])
    else if String.length impl >= 3 && String.sub impl 0 3 = "ok " then begin
      let l' = Util.items_of_string (String.sub impl 3 (String.length impl - 3)) in
      if is_prefix l' l && ub (encode_contents (bl l')) = p then (None, [])
      else (None, ["truncation prefix split differently: " ^ impl])
    end else (None, ["truncation " ^ impl])
  | _ -> (Some "driver: unknown line", [])

let () = Util.run handle
