(* drv_tablelib.ml : model side of the C07 / C18 correspondence (routing table) and the monitors.
   One line = one history: the operations are replayed in the extracted model (Table_model.step), the model state
   is printed in the harness' component format after every step and compared component by component with the
   implementation snapshot; the monitors (extracted inv_b / chk_* / pol_*_b) are evaluated on the tables PARSED
   FROM THE IMPLEMENTATION SNAPSHOTS. *)
open Table_model

let n_of_int (k : int) : n = Obj.magic (Util.n_of_int k)
let n_of_hex (s : string) : n = Obj.magic (Util.n_of_hex s)
let hex_of_n (x : n) : string = Util.hex_of_n (Obj.magic x)
let int_of_n (x : n) : int = Util.int_of_n (Obj.magic x)
let nat_of_int (k : int) : nat = Obj.magic (Util.nat_of_int k)

let split c s = if s = "" then [] else String.split_on_char c s
let b01 b = if b then "1" else "0"

type ctx = { pool : n array; index : (string, int) Hashtbl.t; selfn : n }

let ip_none_n = n_of_hex "100000000"
let ip_of_string s = if s = "x" then ip_none_n else n_of_hex s
let string_of_ip (x : n) =
  if x = ip_none_n then "x" else begin
    let h = hex_of_n x in
    if String.length h < 8 then String.make (8 - String.length h) '0' ^ h else h
  end
let ix ctx (id : n) = match Hashtbl.find_opt ctx.index (hex_of_n id) with Some i -> string_of_int i | None -> "?" ^ hex_of_n id
let ixi ctx (id : n) = match Hashtbl.find_opt ctx.index (hex_of_n id) with Some i -> i | None -> -1
let id_of ctx (s : string) : n =
  if String.length s > 0 && s.[0] = '?' then n_of_hex (String.sub s 1 (String.length s - 1)) else ctx.pool.(int_of_string s)

(* ---- ops *)
let parse_node ctx s : node =
  match String.split_on_char '.' s with
  | [i; seq; ip; port] -> { nid = id_of ctx i; nseq = n_of_int (int_of_string seq); nip = ip_of_string ip; nport = n_of_int (int_of_string port) }
  | _ -> failwith ("node " ^ s)
let parse_nodes ctx s = if s = "-" then [] else List.map (parse_node ctx) (split ',' s)
let parse_picks s = List.map (fun p -> nat_of_int (int_of_string p)) (split ',' s)
let parse_plain ctx (s : string) : op =
  let f = String.split_on_char ':' s in
  match s.[0], f with
  | 'I', _ -> SetInit
  | 'F', [_; nd] -> AddFound (parse_node ctx nd, s.[1] = '1')
  | 'N', [_; nd] -> AddInbound (parse_node ctx nd)
  | 'B', [_; nds] -> BulkAdd (parse_nodes ctx nds)
  | 'D', [_; i; p] -> Delete (id_of ctx i, nat_of_int (int_of_string p))
  | 'R', [_; ps] -> RevalRun (s.[1] = '1', s.[2] = '1', parse_picks ps)
  | 'A', [_; i; r; nd; p] ->
    RevalResp (id_of ctx i, r = "1", (if nd = "-" then None else Some (parse_node ctx nd)), nat_of_int (int_of_string p))
  | 'T', [_; nd; ok; nds; p] -> Track (parse_node ctx nd, ok = "1", parse_nodes ctx nds, nat_of_int (int_of_string p))
  | _ -> failwith ("op " ^ s)
(* P:idx:<pingok>:<pingseq>:<enr record or - (request failed)>:pick  = the remote node's behaviour for doRevalidate *)
let parse_op ctx (s : string) : xop =
  if s.[0] = 'P' then
    match String.split_on_char ':' s with
    | [_; i; ok; sq; enr; p] ->
      RevalPing (id_of ctx i, ok = "1", n_of_int (int_of_string sq), (if enr = "-" then None else Some (parse_node ctx enr)),
                 nat_of_int (int_of_string p))
    | _ -> failwith ("op " ^ s)
  else Plain (parse_plain ctx s)

(* ---- printing a model table as components *)
let str_entry ctx (e : entry) =
  Printf.sprintf "%s.%d.%s.%d.%d.%s.%s" (ix ctx e.nd.nid) (int_of_n e.nd.nseq) (string_of_ip e.nd.nip) (int_of_n e.nd.nport)
    (int_of_n e.checks) (b01 e.live) (match e.rl with Some Fast -> "f" | Some Slow -> "s" | None -> "-")
let str_node ctx (nd : node) =
  Printf.sprintf "%s.%d.%s.%d" (ix ctx nd.nid) (int_of_n nd.nseq) (string_of_ip nd.nip) (int_of_n nd.nport)
let str_outcome ctx ((r, nr) : bool * node option) =
  b01 r ^ "/" ^ (match nr with None -> "-" | Some nd -> str_node ctx nd)
let str_entries ctx l = String.concat "," (List.map (str_entry ctx) l)
let str_ipset (s : ipset) =
  let l = List.map (fun (k, c) -> (int_of_n k, int_of_n c)) s in
  let l = List.sort compare l in
  String.concat "," (List.map (fun (k, c) -> Printf.sprintf "%x.%d" k c) l)
let str_ids ctx l = String.concat "," (List.map (ix ctx) l)

let comp_keys with_lists =
  List.init 17 (fun j -> "b" ^ string_of_int j) @ ["t"] @ (if with_lists then ["f"; "s"; "a"; "x"] else []) @ ["n"]

let components ctx (x : xtable) : (string * string) list =
  let t = x.core in
  let sq id = match start_seq x.started id with Some v -> int_of_n v | None -> 0 in
  let bs = List.mapi (fun j b -> ("b" ^ string_of_int j, str_entries ctx b.ents ^ "~" ^ str_entries ctx b.reps ^ "~" ^ str_ipset b.bips)) t.bks in
  let act = List.sort compare (List.map (fun (id, att) -> (ixi ctx id, att, sq id)) t.gl.active) in
  let fl = List.filter (fun (_, v) -> int_of_n v <> 0) t.fails in
  let fl = List.sort compare (List.map (fun ((id, ip), v) -> (ixi ctx id, string_of_ip ip, int_of_n v)) fl) in
  bs @ [ ("t", str_ipset t.gl.tips); ("f", str_ids ctx t.gl.fast); ("s", str_ids ctx t.gl.slow);
         ("a", String.concat "," (List.map (fun (i, att, q) -> Printf.sprintf "%d.%s.%d" i (b01 att) q) act));
         ("x", String.concat "," (List.map (fun (i, ip, v) -> Printf.sprintf "%d.%s.%d" i ip v) fl));
         ("n", b01 t.initd) ]

(* ---- parsing implementation components into a table *)
let parse_entry ctx s : entry =
  match String.split_on_char '.' s with
  | [i; seq; ip; port; chk; lv; l] ->
    { nd = { nid = id_of ctx i; nseq = n_of_int (int_of_string seq); nip = ip_of_string ip; nport = n_of_int (int_of_string port) };
      checks = n_of_int (int_of_string chk); live = (lv = "1");
      rl = (match l with "f" -> Some Fast | "s" -> Some Slow | "-" -> None | _ -> failwith "list tag") }
  | _ -> failwith ("entry " ^ s)
let parse_entries ctx s = List.map (parse_entry ctx) (split ',' s)
let parse_ipset s : ipset =
  List.map (fun kv -> match String.split_on_char '.' kv with
    | [k; c] -> (n_of_hex k, n_of_int (int_of_string c)) | _ -> failwith "ipset") (split ',' s)
let parse_xtable ctx (h : (string, string) Hashtbl.t) : xtable =
  let get k = match Hashtbl.find_opt h k with Some v -> v | None -> "" in
  let bucket j =
    match String.split_on_char '~' (get ("b" ^ string_of_int j)) with
    | [e; r; p] -> { ents = parse_entries ctx e; reps = parse_entries ctx r; bips = parse_ipset p }
    | _ -> failwith "bucket" in
  let nb = let rec cnt j = if Hashtbl.mem h ("b" ^ string_of_int j) then cnt (j + 1) else j in cnt 0 in
  let act3 = List.map (fun s -> match String.split_on_char '.' s with
    | [i; a; q] -> (id_of ctx i, a = "1", n_of_int (int_of_string q))
    | [i; a] -> (id_of ctx i, a = "1", n_of_int 0) | _ -> failwith "active") (split ',' (get "a")) in
  let act = List.map (fun (i, a, _) -> (i, a)) act3 in
  let fl = List.map (fun s -> match String.split_on_char '.' s with
    | [i; ip; v] -> ((id_of ctx i, ip_of_string ip), n_of_int (int_of_string v)) | _ -> failwith "fails") (split ',' (get "x")) in
  { core = { self = ctx.selfn; bks = List.init nb bucket;
             gl = { tips = parse_ipset (get "t"); fast = List.map (id_of ctx) (split ',' (get "f"));
                    slow = List.map (id_of ctx) (split ',' (get "s")); active = act };
             fails = fl; initd = (get "n" = "1") };
    started = List.map (fun (i, _, q) -> (i, q)) act3 }
let parse_table ctx h : table = (parse_xtable ctx h).core

let apply_delta (h : (string, string) Hashtbl.t) (d : string) =
  List.iter (fun kv ->
    match String.index_opt kv '=' with
    | Some i -> Hashtbl.replace h (String.sub kv 0 i) (String.sub kv (i + 1) (String.length kv - i - 1))
    | None -> failwith ("delta " ^ kv)) (split '&' d)

(* ---- monitors *)
let c07_monitors ~(full : bool) (t : table) (where : string) : string list =
  let chk name ok = if ok then [] else [name ^ " " ^ where] in
  let basic =
    chk "bucket-overfull" (chk_sizes_ents t) @ chk "replacements-overfull" (chk_sizes_reps t) @
    chk "duplicate-id" (chk_unique t) @ chk "self-in-table" (chk_self t) @ chk "wrong-bucket" (chk_place t) @
    chk "ip-limit-bucket" (chk_iplimit_bucket t) @ chk "ip-limit-table" (chk_iplimit_table t) in
  if basic <> [] then basic
  else if not full then begin
    (* running table: no revalidation lists in the snapshot; bucket-local clauses except the list flags, and the IP counters *)
    let noflags = { t with bks = List.map (fun b ->
      { b with ents = List.map (fun e -> { e with rl = Some Fast }) b.ents; reps = List.map (fun e -> { e with rl = None }) b.reps }) t.bks } in
    let rec loc j = function [] -> true | b :: r -> blocal_b t.self (nat_of_int j) b && loc (j + 1) r in
    chk "ip-counter-inconsistent" (loc 0 noflags.bks && gips_b noflags.bks noflags.gl)
  end
  else if inv_b t then []
  else begin
    let rec loc j = function [] -> true | b :: r -> blocal_b t.self (nat_of_int j) b && loc (j + 1) r in
    let l = chk "ip-counter-inconsistent" (gips_b t.bks t.gl) @ chk "reval-list-inconsistent" (glists_b t.bks t.gl) @
            chk "active-inconsistent" (gactive_b t.bks t.gl) @ chk "bucket-local-invariant" (loc 0 t.bks) in
    if l = [] then ["invariant-broken " ^ where] else l
  end

(* hist = hist_fails of the operations executed before o: the consecutive-failure counters derived from the
   operation history (C18_fail_counter_is_consecutive); the leave-cause and record predicates are evaluated with
   them, NOT with the implementation's own counter (t.fails, used only for the detail text) *)
let c18_monitors (timpl : table) (hist : ((n * n) * n) list) (o : op) (t' : table) (where : string) : string list =
  let t = with_fails timpl hist in
  let where = match o with
    | Track (nd, false, _, _) ->
      Printf.sprintf "%s consecutive-failures=%d total=%d" where
        (int_of_n (fails_read hist nd.nid nd.nip) + 1) (int_of_n (fails_read timpl.fails nd.nid nd.nip) + 1)
    | _ -> where in
  let chk name ok = if ok then [] else [name ^ " " ^ where] in
  (if pol_full_b t o t' then []
   else if List.map (fun b -> b.ents) t.bks <> List.map (fun b -> b.ents) t'.bks then ["entry-displaced-by-newcomer " ^ where]
   else ["replacement-order " ^ where]) @
  chk "entry-removed-without-cause" (pol_leave_b t o t') @
  chk "leaver-not-succeeded" (pol_succ_b t o t') @
  chk "record-downgrade" (pol_record_b t o t') @
  chk "live-after-endpoint-change" (pol_endpoint_b t o t') @
  chk "credit-lost-after-answered-ping" (pol_credit_b t o t') @
  (* converse for liveness (C18_failed_check_divides_credit): a failed answer must cost credit *)
  (let detail = match failed_target t o with
     | Some e -> Printf.sprintf " credit-before=%d expected=%d got=%s" (int_of_n e.checks) (int_of_n e.checks / 3)
                   (match List.concat_map (fun b -> List.filter (fun x -> x.nd.nid = e.nd.nid) b.ents) t'.bks with
                    | x :: _ -> string_of_int (int_of_n x.checks) | [] -> "gone")
     | None -> "" in
   (if pol_failed_credit_b t o t' then [] else ["credit-not-reduced-after-failed-check " ^ where ^ detail]) @
   (if pol_failed_gone_b t o t' then [] else ["entry-kept-after-credit-exhausted " ^ where ^ detail])) @
  (* converse of the leave rule (C18_entry_leaves_if), again with the history-derived consecutive count *)
  (if pol_kept_b t o t' then []
   else ["entry-kept-despite-cause " ^ where ^
         (match must_leave_b t o with
          | Some (id, _) -> Printf.sprintf " bucket-entries=%d"
              (List.fold_left (fun a b -> if List.exists (fun e -> e.nd.nid = id) b.ents then List.length b.ents else a) 0 t.bks)
          | None -> "")])

(* ---- one line *)
let make_ctx selfhex poolstr =
  let pool = Array.of_list (List.map n_of_hex (String.split_on_char ',' poolstr)) in
  let index = Hashtbl.create 64 in
  Array.iteri (fun i id -> if not (Hashtbl.mem index (hex_of_n id)) then Hashtbl.add index (hex_of_n id) i) pool;
  { pool; index; selfn = n_of_hex selfhex }

let handle ~(c07 : bool) ~(c18 : bool) (fields : string list) (impl : string) : string option * string list =
  match fields with
  | ["hist"; selfhex; poolstr; opstr] ->
    let ctx = make_ctx selfhex poolstr in
    let ops = if opstr = "-" then [] else List.map (parse_op ctx) (String.split_on_char ';' opstr) in
    (* implementation observable *)
    let words = String.split_on_char ' ' impl in
    let (panic_at, panic_msg, snapstr) = match words with
      | ["ok"; s] -> (-1, "", s)
      | ["panic"; k; msg; s] -> (int_of_string k, msg, s)
      | _ -> failwith "observable" in
    let snaps = Array.of_list (String.split_on_char '#' snapstr) in
    let h = Hashtbl.create 32 in
    apply_delta h snaps.(0);
    let mons = ref [] in
    let diff = ref None in
    let model = ref (Some (xinit ctx.selfn)) in
    let model_r = ref "" in
    let compare_step k =
      match !model, !diff with
      | Some m, None ->
        List.iter (fun (key, v) ->
          if !diff = None then begin
            let iv = match Hashtbl.find_opt h key with Some x -> x | None -> "<missing>" in
            if iv <> v then diff := Some (Printf.sprintf "step %d component %s model=%s impl=%s" k key v iv)
          end) (components ctx m @ [("r", !model_r)])
      | _ -> () in
    compare_step 0;
    let ximpl = ref (parse_xtable ctx h) in
    let timpl = ref (!ximpl).core in
    let hist = ref [] in
    let inflight : n list ref = ref [] in   (* requests started and not yet answered, according to the history *)
    if c07 then mons := !mons @ c07_monitors ~full:true !timpl "step=0";
    let nsteps = Array.length snaps - 1 in
    List.iteri (fun k o ->
      if k < nsteps then begin
        apply_delta h snaps.(k + 1);
        (* what the model's doRevalidate hands to handleResponse *)
        (match !model, o with
         | Some m, RevalPing (id, ok, sq, enr, _) ->
           model_r := (match start_seq m.started id with
             | Some s0 -> str_outcome ctx (reval_outcome s0 ok sq enr)
             | None -> "-")
         | _ -> model_r := "");
        (match !model with Some m -> model := xstep m o | None -> ());
        if !model = None && !diff = None then diff := Some (Printf.sprintf "step %d model panics, implementation does not" (k + 1));
        compare_step (k + 1);
        let x' = parse_xtable ctx h in
        let t' = x'.core in
        let where = Printf.sprintf "step=%d" (k + 1) in
        if c07 then mons := !mons @ c07_monitors ~full:true t' where;
        (* the table operation the step amounts to, with the captured seq taken from the IMPLEMENTATION snapshot and
           the proved model of doRevalidate (C18_reval_outcome): a ping that was answered is a successful check *)
        let o' = xresolve !ximpl o in
        if c18 then begin
          (match o with
           | RevalPing (id, ok, sq, enr, _) ->
             let ri = match Hashtbl.find_opt h "r" with Some v -> v | None -> "" in
             (match start_seq (!ximpl).started id with
              | Some s0 when ri <> "-" && ri <> "" ->
                let (er, enr') = reval_outcome s0 ok sq enr in
                let did = ri.[0] = '1' in
                if er && not did then mons := !mons @ [Printf.sprintf "liveness-failure-reported-for-answered-ping %s got=%s" where ri]
                else if did && not er then mons := !mons @ [Printf.sprintf "liveness-success-reported-for-failed-ping %s got=%s" where ri]
                else if ri <> str_outcome ctx (er, enr') then
                  mons := !mons @ [Printf.sprintf "reval-new-record-unexpected %s got=%s want=%s" where ri (str_outcome ctx (er, enr'))]
              | _ -> ())
           | _ -> ());
          mons := !mons @ c18_monitors !timpl !hist o' t' where;
          (* activeReq against the requests in flight according to the history (C18_active_is_in_flight) *)
          let ids (t : table) = List.map fst t.gl.active in
          let before = ids !timpl in
          (match o' with
           | RevalRun (_, _, _) ->
             (* what the run must start when only the requests really in flight are excluded *)
             let th = { !timpl with gl = { (!timpl).gl with active = List.filter (fun (i, _) -> List.mem i !inflight) (!timpl).gl.active } } in
             (match step th o' with
              | Some te ->
                List.iter (fun i ->
                  if not (List.mem i (ids th)) && (List.mem i before || not (List.mem i (ids t'))) then
                    mons := !mons @ [Printf.sprintf "due-entry-never-revalidated %s node=%s" where (ix ctx i)]) (ids te)
              | None -> ());
             List.iter (fun i -> if not (List.mem i before) && not (List.mem i !inflight) then inflight := i :: !inflight) (ids t')
           | RevalResp (id, _, _, _) -> inflight := List.filter (fun i -> i <> id) !inflight
           | _ -> ());
          List.iter (fun i ->
            if not (List.mem i !inflight) then
              mons := !mons @ [Printf.sprintf "request-marked-active-without-request-in-flight %s node=%s" where (ix ctx i)]) (ids t');
          if not (pol_active_b !timpl o' t') then mons := !mons @ ["active-set-changed-unexpectedly " ^ where]
        end;
        hist := fails_step !hist o';
        ximpl := x';
        timpl := t'
      end else if k = panic_at then begin
        (match !model with Some m -> model := xstep m o | None -> ());
        (match !model with
         | None -> ()
         | Some _ -> if !diff = None then diff := Some (Printf.sprintf "step %d implementation panics (%s), model does not" (k + 1) panic_msg));
        mons := !mons @ [Printf.sprintf "table-op-panics step=%d %s" (k + 1) panic_msg]
      end) ops;
    (* keep only the first monitor failure of each key: one history, one report per kind *)
    let seen = Hashtbl.create 8 in
    let mons = List.filter (fun m ->
      let key = List.hd (String.split_on_char ' ' m) in
      if Hashtbl.mem seen key then false else (Hashtbl.add seen key (); true)) !mons in
    ((match !diff with None -> Some impl | Some d -> Some ("ok " ^ d)), mons)
  | ["conc"; selfhex; poolstr; _] ->
    let ctx = make_ctx selfhex poolstr in
    let snapstr = match String.split_on_char ' ' impl with ["ok"; s] -> s | _ -> failwith "observable" in
    let h = Hashtbl.create 32 in
    apply_delta h snapstr;
    let t = parse_table ctx h in
    (None, if c07 then c07_monitors ~full:false t "final" else [])
  | _ -> (Some "driver: unknown line", [])
