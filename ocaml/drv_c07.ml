(* drv_c07.ml : C07 driver = table correspondence + the invariant monitors (see drv_tablelib.ml) *)
let () = Util.run (Drv_tablelib.handle ~c07:true ~c18:false)
