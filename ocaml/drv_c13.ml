(* drv_c13.ml : model side of the C13 correspondence (state proofs) and monitors over implementation observations.
   keccak, the RLP node decoder, types.FullAccount and the header source are lookup tables built from the case line
   (the harness obtained them from the real library functions); the model never computes them. *)
open C13_model
let b (l : int list) : byte list = Obj.magic l
let ub (l : byte list) : int list = Obj.magic l
let int_n (x : n) : int = Util.int_of_n (Obj.magic x)

let hexb s = b (Util.bytes_of_hex s)
let hexs (x : byte list) = Util.hex_of_bytes (ub x)
let hexb_raw s = if s = "" then b [] else hexb s   (* inside dumps an empty byte string is the empty string *)

(* MODEL=orig selects the model of the code before the C13 fixes (used to reproduce the defects on an unrepaired tree) *)
let use_orig = (try Sys.getenv "C13_MODEL" = "orig" with Not_found -> false)

let starts s p = String.length s >= String.length p && String.sub s 0 (String.length p) = p
let contains s sub =
  let n = String.length s and m = String.length sub in
  let rec go i = i + m <= n && (String.sub s i m = sub || go (i + 1)) in go 0

(* ---- dump parser:  N | H<hex> | V<hex> | S<hex>:<node> | F(<node>,...) *)
exception Bad_dump of string
let parse_dump (s : string) : node =
  let n = String.length s in
  let pos = ref 0 in
  let is_hex c = (c >= '0' && c <= '9') || (c >= 'a' && c <= 'f') in
  let hex () = let st = !pos in while !pos < n && is_hex s.[!pos] do incr pos done; String.sub s st (!pos - st) in
  let rec node () : node =
    if !pos >= n then raise (Bad_dump s);
    let c = s.[!pos] in incr pos;
    match c with
    | 'N' -> Nil
    | 'H' -> Hash (hexb_raw (hex ()))
    | 'V' -> Value (hexb_raw (hex ()))
    | 'S' ->
      let k = hexb_raw (hex ()) in
      if !pos >= n || s.[!pos] <> ':' then raise (Bad_dump s);
      incr pos;
      let v = node () in Short (k, v)
    | 'F' ->
      if !pos >= n || s.[!pos] <> '(' then raise (Bad_dump s);
      incr pos;
      let cs = ref [] in
      let fin = ref false in
      while not !fin do
        cs := node () :: !cs;
        if !pos >= n then raise (Bad_dump s);
        (match s.[!pos] with ',' -> incr pos | ')' -> incr pos; fin := true | _ -> raise (Bad_dump s))
      done;
      Full (List.rev !cs)
    | _ -> raise (Bad_dump s) in
  let r = node () in
  if !pos <> n then raise (Bad_dump s);
  r

let show_trv = function
  | Ok (r, rest) -> "ok " ^ hexs r ^ " " ^ hexs rest
  | Err e -> Printf.sprintf "err %d" (int_n e)
  | Panic -> "panic"

let rec all_nibbles = function [] -> true | x :: t -> x < 16 && all_nibbles t

(* panic classification by the runtime message (spaces were replaced by '_' by the harness) *)
let find_sub (s : string) (sub : string) : int option =
  let n = String.length s and m = String.length sub in
  let rec go i = if i + m > n then None else if String.sub s i m = sub then Some i else go (i + 1) in go 0
let classify_panic (who : string) (msg : string) : string =
  if contains msg "index_out_of_range_[-1]" then who ^ "-panics-empty-short-key"
  else if contains msg "interface_conversion" then who ^ "-panics-type-assertion"   (* (v.Val).(valueNode) on a non-value *)
  else begin
    (* index_out_of_range_[K]_with_length_K : path[index] one past the end of the path *)
    let key_longer =
      match find_sub msg "index_out_of_range_[" with
      | None -> false
      | Some i ->
        (try Scanf.sscanf (String.sub msg i (String.length msg - i)) "index_out_of_range_[%d]_with_length_%d" (fun a l -> a = l)
         with _ -> false) in
    if key_longer then who ^ "-panics-key-longer-than-path" else who ^ "-panics-other"
  end

let split_on c s = if s = "." then [] else String.split_on_char c s

let verdict_key (stage : int) (v : int) : string =
  let base = match v with
    | 1 | 3 -> "accepted-broken-chain"
    | 2 -> "accepted-wrong-root"
    | 4 -> "accepted-path-not-consumed"
    | 5 -> "accepted-wrong-final-hash"
    | 6 | 7 -> "accepted-account-not-proven"
    | 8 -> "accepted-without-header"
    | 9 -> "accepted-bad-nibbles"
    | _ -> "accepted-unknown-verdict" in
  if stage = 1 && (v = 1 || v = 2 || v = 3) then base ^ "-in-account-proof" else base

(* what the model's stored value hashes to: keccak (table lookup) of the payload after the 4-byte SSZ offset *)
let stored_hash (node_hash : byte list -> byte list) (s : byte list) : string =
  match s with _ :: _ :: _ :: _ :: payload -> hexs (node_hash payload) | _ -> "short"

(* ---- one item = the 13 fields of a val line (also one step of a hist line) ---- *)
type item = {
  tag : string; kind : string; req : request; bh : byte list; oracle : string;
  tbl : (int list * (byte list * node option)) list;         (* node bytes -> (keccak, decoded form) *)
  atbl : (int list * (byte list * byte list)) list;           (* leaf value -> FullAccount result *)
  codeb : byte list; codek : string;
}

let parse_item tag kind oracle blockhash addrhash path keyhash code codek acctproof mainproof tbl accts : item =
  let aproof = List.map hexb (split_on ',' acctproof) and mproof = List.map hexb (split_on ',' mainproof) in
  let entries = List.map (fun e -> match String.split_on_char '~' e with
      | [h; d] -> (hexb h, d) | _ -> failwith "tbl entry") (split_on ';' tbl) in
  let nodes = aproof @ mproof in
  if List.length nodes <> List.length entries then failwith "tbl length";
  let table = List.map2 (fun nb (h, d) -> (ub nb, (h, (if d = "E" then None else Some (parse_dump d))))) nodes entries in
  let atable = List.map (fun e -> match String.split_on_char '~' e with
      | [v; r; c] -> (ub (hexb v), (hexb r, hexb c)) | _ -> failwith "accts entry") (split_on ';' accts) in
  let codeb = hexb code and bh = hexb blockhash in
  let req = match kind with
    | "atn" -> RAccountNode (hexb path, hexb keyhash, mproof, bh)
    | "csn" -> RStorageNode (hexb addrhash, hexb path, hexb keyhash, mproof, aproof, bh)
    | "cbc" -> RBytecode (hexb addrhash, hexb keyhash, codeb, aproof, bh)
    | _ -> failwith "kind" in
  { tag; kind; req; bh; oracle; tbl = table; atbl = atable; codeb; codek }

(* the library functions as lookups over the tables of the given items (one item for a val line, all steps of a history) *)
let oracles (items : item list) =
  let tbl = List.concat_map (fun it -> it.tbl) items and atbl = List.concat_map (fun it -> it.atbl) items in
  let codes = List.filter_map (fun it -> if it.kind = "cbc" then Some (ub it.codeb, hexb it.codek) else None) items in
  let node_hash (x : byte list) : byte list =
    match List.assoc_opt (ub x) tbl with
    | Some (h, _) -> h
    | None -> (match List.assoc_opt (ub x) codes with Some h -> h | None -> failwith "node_hash: not in table") in
  let decode (x : byte list) : node res =
    match List.assoc_opt (ub x) tbl with
    | Some (_, Some nd) -> Ok nd
    | Some (_, None) -> Err (Obj.magic (Util.n_of_int 20))
    | None -> failwith "decode: not in table" in
  let decode_account (x : byte list) : (byte list * byte list) res =
    match List.assoc_opt (ub x) atbl with Some a -> Ok a | None -> Err (Obj.magic (Util.n_of_int 21)) in
  (node_hash, decode, decode_account)

(* the header source during the item's step: serves the scripted root for the item's block hash, fails otherwise *)
let header_of (it : item) (x : byte list) : byte list res =
  if it.oracle <> "!" && ub x = ub it.bh then Ok (hexb it.oracle) else Err (Obj.magic (Util.n_of_int 22))

(* monitors: the property's predicates on the IMPLEMENTATION's verdict iv / Put observation ip ("-" = Put did not run) *)
let item_monitors (node_hash, decode, decode_account) (it : item) (iv : string) (ip : string) (ik : string) (where : string) : string list =
  let mons = ref [] in
  let tag = it.tag ^ where in
  let add k d = mons := (k ^ " " ^ d) :: !mons in
  let header = header_of it and req = it.req in
  List.iter (fun (_, (_, d)) -> match d with
      | Some nd -> if not (wf_node nd && is_top nd) then add "decoder-output-not-wellformed" tag
      | None -> ()) it.tbl;
  let fixed_v = validate_content node_hash decode decode_account header req in
  let orig_v = validate_content_orig node_hash decode decode_account header req in
  let (stage, verdict) = content_verdict node_hash decode decode_account header req in
  let stage = int_n stage and verdict = int_n verdict in
  if iv = "ok" then begin
    if verdict <> 0 then begin
      (* the chain predicate of the theorem is false, yet the implementation accepted *)
      let through_leaf = (match fixed_v with Err e -> int_n e = 12 | _ -> false) && (match orig_v with Ok () -> true | _ -> false) in
      if through_leaf then add "accepted-proof-through-leaf-value" (Printf.sprintf "tag=%s stage=%d" tag stage)
      else add (verdict_key stage verdict) (Printf.sprintf "tag=%s stage=%d verdict=%d" tag stage verdict)
    end;
    (match expected_stored req with
     | Some e ->
       if starts ip "ok:" then begin
         if ip <> "ok:" ^ hexs e then begin
           (* the offered final node / code is inside the stored value, with other bytes around it *)
           let payload = (match ub e with _ :: _ :: _ :: _ :: pl -> Util.hex_of_bytes pl | _ -> "-") in
           let key = if payload <> "-" && contains ip payload then "stored-payload-differs-from-offered" else "stored-not-final-node" in
           add key (Printf.sprintf "tag=%s stored=%s" tag (String.sub ip 0 (min 80 (String.length ip))))
         end;
         ()
       end else if ip = "ok-store-failed" || ip = "-novalue-" then ()   (* scripted store fault / Put not part of this line *)
       else if starts ip "panic" then add "put-panics-after-accept" (tag ^ " " ^ ip)
       else begin
         (* a bytecode item passes ValidateContent on the account's code hash alone; the code bytes are bound to the key by
            Put (keccak(code) = key.CodeHash).  Validator-ok + Put-err is therefore a rejection, not an acceptance, exactly when
            the code does not hash to the key.  For trie nodes Put repeats a check the validator already made. *)
         let code_mismatch = (match req with RBytecode (_, ch, code, _, _) -> not (bytes_eqb (node_hash code) ch) | _ -> false) in
         if not code_mismatch then add "accepted-but-not-stored" (tag ^ " " ^ ip)
       end
     | None -> add "accepted-empty-proof" tag)
  end
  else ();
  (* C13_put_rechecks_hash judged on the implementation's STORED value: ik is the keccak (computed by the harness with the
     real keccak) of the payload Put wrote; it must be the hash in the key - whether or not the validator ran before *)
  if starts ip "ok:" then begin
    let key_hash = match req with RAccountNode (_, nh, _, _) -> nh | RStorageNode (_, _, nh, _, _, _) -> nh | RBytecode (_, ch, _, _, _) -> ch in
    if ik <> hexs key_hash then
      add (if it.kind = "cbc" then "stored-code-not-hashing-to-key" else "stored-node-not-hashing-to-key")
        (Printf.sprintf "tag=%s stored-hashes-to=%s key=%s" tag ik (hexs key_hash))
  end;
  if iv = "ok" then ()
  else if starts iv "panic" then add (classify_panic "validator" iv) (Printf.sprintf "tag=%s %s" tag iv)
  else if starts iv "err" && verdict = 0 then add "rejected-honest-proof" (Printf.sprintf "tag=%s" tag);
  List.rev !mons

let handle fields impl : string option * string list =
  match fields with
  | ["trv"; _node; dump; path] ->
    if dump = "E" then (Some "err", if starts impl "panic" then ["decoder-panics " ^ impl] else [])
    else begin
      let nd = parse_dump dump in
      let p = hexb path in
      let m = show_trv (if use_orig then traverse_orig nd p else traverse nd p) in
      let m = if starts m "panic" && starts impl "panic" then impl else m in
      let mons =
        if starts impl "panic" && all_nibbles (ub p) && wf_node nd
        then [classify_panic "traverse" impl ^ " " ^ impl] else [] in
      let mons = if not (wf_node nd) then ("decoder-output-not-wellformed " ^ dump) :: mons else mons in
      (* specification check of an "ok" result, independent of the traversal model: the returned bytes are the hash the
         node references along the path (ref_along) or the value of the leaf reached with the whole path (leaf_along) *)
      let mons =
        if starts impl "ok " then begin
          let as_ref = match ref_along nd p with Some (h, r) -> "ok " ^ hexs h ^ " " ^ hexs r | None -> "" in
          (* in the leaf case the code returns the path as it was AT THE LEAF (a suffix of p) *)
          let rec suffixes l = l :: (match l with [] -> [] | _ :: t -> suffixes t) in
          let as_leaf = match leaf_along nd p with
            | Some v -> List.map (fun sfx -> "ok " ^ hexs v ^ " " ^ hexs (b sfx)) (suffixes (ub p)) | None -> [] in
          if impl = as_ref || List.mem impl as_leaf then mons
          else ("traverse-returned-neither-reference-nor-leaf " ^ impl) :: mons
        end else mons in
      (Some m, mons)
    end
  | ["nib"; h] ->
    let m = match nibbles_deserialize (hexb h) with
      | Ok l -> "ok " ^ hexs l | Err e -> Printf.sprintf "err %d" (int_n e) | Panic -> "panic" in
    (Some m, if starts impl "panic" then ["nibbles-deserialize-panics " ^ impl] else [])
  | ["raw"; _; _] ->
    (Some "v:err p:err k:-",
     (if contains impl "v:panic" then ["validator-panics-in-ssz-layer " ^ impl] else [])
     @ (if contains impl "v:ok" then ["accepted-undecodable-content " ^ impl] else []))
  | ["val"; tag; kind; oracle; blockhash; addrhash; path; keyhash; code; codek; acctproof; mainproof; tbl; accts] ->
    let it = parse_item tag kind oracle blockhash addrhash path keyhash code codek acctproof mainproof tbl accts in
    let (node_hash, decode, decode_account) as orc = oracles [it] in
    let header = header_of it in
    (* implementation observation *)
    let iv, ip, ik = match String.split_on_char ' ' impl with
      | [v; p; k] when starts v "v:" && starts p "p:" && starts k "k:" ->
        (String.sub v 2 (String.length v - 2), String.sub p 2 (String.length p - 2), String.sub k 2 (String.length k - 2))
      | _ -> failwith "impl observation" in
    (* model *)
    let mv = match (if use_orig then validate_content_orig node_hash decode decode_account header it.req
                    else validate_content node_hash decode decode_account header it.req) with
      | Ok () -> "ok" | Err _ -> "err" | Panic -> if starts iv "panic" then iv else "panic" in
    let mp = match put node_hash it.req with
      | Ok s -> "ok:" ^ hexs s | Err _ -> "err" | Panic -> if starts ip "panic" then ip else "panic" in
    let mk = match put node_hash it.req with Ok s -> stored_hash node_hash s | _ -> "-" in
    (Some ("v:" ^ mv ^ " p:" ^ mp ^ " k:" ^ mk), item_monitors orc it iv ip ik "")
  | ["conc"; steps] ->
    (* two OVERLAPPING ValidateContent calls on one validator: each verdict is the model's verdict on that item alone *)
    let items = List.map (fun st -> match String.split_on_char '^' st with
        | [tag; kind; oracle; blockhash; addrhash; path; keyhash; code; codek; acctproof; mainproof; tbl; accts] ->
          parse_item tag kind oracle blockhash addrhash path keyhash code codek acctproof mainproof tbl accts
        | _ -> failwith "conc step") (String.split_on_char '@' steps) in
    let (node_hash, decode, decode_account) as orc = oracles items in
    let ivs = List.map (fun o -> if starts o "v:" then String.sub o 2 (String.length o - 2) else failwith "conc obs") (String.split_on_char '@' impl) in
    if List.length ivs <> List.length items then failwith "conc observation";
    let mvs = List.map2 (fun it iv ->
        match validate_content node_hash decode decode_account (header_of it) it.req with
        | Ok () -> "v:ok" | Err _ -> "v:err" | Panic -> if starts iv "panic" then "v:" ^ iv else "v:panic") items ivs in
    let with_addr it addr = match it.req with
      | RStorageNode (_, p, nh, sp, ap, bh) -> Some (RStorageNode (addr, p, nh, sp, ap, bh))
      | RBytecode (_, ch, code, ap, bh) -> Some (RBytecode (addr, ch, code, ap, bh))
      | _ -> None in
    let addr_of it = match it.req with
      | RStorageNode (a, _, _, _, _, _) -> Some a | RBytecode (a, _, _, _, _) -> Some a | _ -> None in
    let n = List.length items in
    let mons = List.concat (List.mapi (fun i (it, iv) ->
        let ms = item_monitors orc it iv "-novalue-" "-" (Printf.sprintf "@call%d/%d-overlapping-calls" (i + 1) n) in
        (* accepted although its own chain predicate is false, and it WOULD hold along the other item's address path *)
        let walked_other_path =
          iv = "ok" && snd (content_verdict node_hash decode decode_account (header_of it) it.req) <> v_OK &&
          List.exists (fun other -> match addr_of other with
              | Some a -> (match with_addr it a with
                  | Some r' -> snd (content_verdict node_hash decode decode_account (header_of it) r') = v_OK
                  | None -> false)
              | None -> false) items in
        if walked_other_path then
          [Printf.sprintf "accepted-wrong-path tag=%s@call%d/%d overlapping-calls: the account proof holds along the OTHER item's address path, not along its own" it.tag (i + 1) n]
        else ms) (List.combine items ivs)) in
    (Some (String.concat "@" mvs), mons)
  | ["hist"; _n; steps] ->
    (* one validator instance and one storage through a sequence of items; the header source is scripted per step *)
    let items = List.map (fun st -> match String.split_on_char '^' st with
        | [tag; kind; oracle; blockhash; addrhash; path; keyhash; code; codek; acctproof; mainproof; tbl; accts; id; sf] ->
          (parse_item tag kind oracle blockhash addrhash path keyhash code codek acctproof mainproof tbl accts, (hexb id, sf <> "1"))
        | _ -> failwith "hist step") (String.split_on_char '@' steps) in
    let store_ok = List.map (fun (_, (_, ok)) -> ok) items in
    let items = List.map (fun (it, (id, _)) -> (it, id)) items in
    let (node_hash, decode, decode_account) as orc = oracles (List.map fst items) in
    let evs = List.map2 (fun (it, id) ok -> { ev_header = header_of it; ev_id = id; ev_req = it.req; ev_store_ok = ok }) items store_ok in
    let ((_, store), outs) = run_history node_hash decode decode_account ((), []) evs in
    (* implementation observations: v:<r>,p:<r>@...@S:<store> *)
    let parts = String.split_on_char '@' impl in
    let n = List.length items in
    if List.length parts <> n + 1 then failwith "hist observation";
    let iobs = List.filteri (fun i _ -> i < n) parts in
    let split_obs o = match String.split_on_char ',' o with
      | [v; p; k] when starts v "v:" && starts p "p:" && starts k "k:" ->
        (String.sub v 2 (String.length v - 2), (String.sub p 2 (String.length p - 2), String.sub k 2 (String.length k - 2)))
      | _ -> failwith "hist step observation" in
    let iobs = List.map split_obs iobs in
    let mobs = List.map2 (fun ((v, p), ok) (iv, (ip, _)) ->
        let mv = match v with Ok () -> "ok" | Err _ -> "err" | Panic -> if starts iv "panic" then iv else "panic" in
        let mp = match p with
          | None -> "-"
          | Some (Ok s) -> if ok then "ok:" ^ hexs s else "ok-store-failed"
          | Some (Err _) -> "err" | Some Panic -> if starts ip "panic" then ip else "panic" in
        let mk = match p with Some (Ok s) when ok -> stored_hash node_hash s | _ -> "-" in
        "v:" ^ mv ^ ",p:" ^ mp ^ ",k:" ^ mk) (List.combine outs store_ok) iobs in
    (* final store: every id ever used, sorted, with the model's latest value *)
    let ids = List.sort_uniq compare (List.map (fun (k, _) -> hexs k) store) in
    let mstore = List.map (fun idh -> match store_get store (hexb idh) with Some v -> idh ^ "~" ^ hexs v | None -> idh ^ "~?") ids in
    let mstore = match mstore with [] -> "." | l -> String.concat ";" l in
    let model = String.concat "@" mobs ^ "@S:" ^ mstore in
    (* per-step monitors, against the header answer of THAT step (C13_history_accept_iff) *)
    let mons = List.concat (List.mapi (fun i ((it, _), (iv, (ip, ik))) ->
        item_monitors orc it iv ip ik (Printf.sprintf "@step%d/%d" (i + 1) n)) (List.combine items iobs)) in
    (* C13_history_store on the implementation: everything in the final store is the expected value of an accepted step *)
    let istore = List.nth parts n in
    let istore = String.sub istore 2 (String.length istore - 2) in
    let smons = List.concat_map (fun e -> match String.split_on_char '~' e with
        | [idh; vh] ->
          let justified = List.exists2 (fun (it, id) (iv, (ip, _)) ->
              hexs id = idh && iv = "ok" && ip <> "ok-store-failed" && (match expected_stored it.req with Some x -> hexs x = vh | None -> false)
              && snd (content_verdict node_hash decode decode_account (header_of it) it.req) = v_OK) items iobs in
          if justified then [] else ["history-store-holds-unjustified-entry id=" ^ idh]
        | _ -> ["history-store-unparsable " ^ e]) (split_on ';' istore) in
    (Some model, mons @ smons)
  | _ -> (Some "driver: unknown line", [])

(* Util.norm collapses observables starting with "err"; ours start with "v:" so the comparison is exact *)
(* The shape check of the decoder's output (wf_node / is_top: hypotheses of C13_total and of the uniqueness theorems) is a
   check of the CORRESPONDENCE (the decoder left the shape the model assumes), not a violation of the property on that
   input: it is reported as a difference (model observable marked), so that a concrete violating input found in the same
   run (e.g. a validator panic on such a node) is what the replay shows. *)
let handle fields impl =
  let (m, mons) = handle fields impl in
  let is_wf x = starts x "decoder-output-not-wellformed" in
  if List.exists is_wf mons then
    ((match m with Some x -> Some (x ^ " !decoder-output-not-wellformed") | None -> Some "!decoder-output-not-wellformed"),
     List.filter (fun x -> not (is_wf x)) mons)
  else (m, mons)

let () = Util.run handle
