(* drv_c03.ml : model side of the C03 correspondence (header proofs in all four eras) and monitors over
   implementation observations.
   The compared model is the REPAIRED one (guard_roots = true, fixes/C03-historical-roots-bounds.diff); with
   C03_ASFOUND=1 in the environment the as-found variant (guard_roots = false) is compared instead (used once to
   replay the defect on the unrepaired tree and by the mutation experiments). *)
open C03_model
let b (l : int list) : byte list = Obj.magic l
let ub (l : byte list) : int list = Obj.magic l
let n_ (k : int) : n = Obj.magic (Util.n_of_int k)
let int_n (x : n) : int = Util.int_of_n (Obj.magic x)
let nat_ (k : int) : nat = Obj.magic (Util.nat_of_int k)

(* decimal of any size -> N, through the extracted N arithmetic (uint64 values exceed OCaml's int) *)
let n_of_dec (s : string) : n =
  let ten = n_ 10 in
  let acc = ref N0 in
  String.iter (fun c ->
    if c < '0' || c > '9' then failwith "n_of_dec";
    acc := N.add (N.mul !acc ten) (n_ (Char.code c - 48))) s;
  !acc

let zero32 : byte list = b (List.init 32 (fun _ -> 0))

(* "<len>:<i>=<hex>/<i>=<hex>" *)
let sparse (s : string) : int * byte list list =
  match String.index_opt s ':' with
  | None -> failwith "sparse"
  | Some i ->
    let len = int_of_string (String.sub s 0 i) in
    let rest = String.sub s (i + 1) (String.length s - i - 1) in
    let ents = if rest = "" then [] else
      List.map (fun e ->
        match String.split_on_char '=' e with
        | [k; v] -> (n_of_dec k, b (Util.bytes_of_hex v))
        | _ -> failwith "sparse entry") (String.split_on_char '/' rest) in
    (len, sparse_fill (nat_ len) N0 ents zero32)

let starts s p = String.length s >= String.length p && String.sub s 0 (String.length p) = p
let contains s sub =
  let n = String.length s and m = String.length sub in
  let rec go i = i + m <= n && (String.sub s i m = sub || go (i + 1)) in go 0

let show = function
  | Ok _ -> "ok"
  | Err e -> Printf.sprintf "err %d" (int_n e)
  | Panic -> "panic"

let asfound = (try Sys.getenv "C03_ASFOUND" = "1" with Not_found -> false)

let consts_field () =
  String.concat "," (List.map (fun k -> string_of_int (int_n k))
    [k_MergeBlockNumber; k_ShanghaiBlockNumber; k_CancunNumber; k_epochSize; k_capellaForkEpoch; k_slotsPerEpoch])

(* "hash:difficultyhex:extrahex,..." -> [(number, hash, difficulty)], numbers 0.. *)
let parse_chain (s : string) : ((n * byte list) * n) list =
  if s = "." then [] else
  List.mapi (fun j e ->
    match String.split_on_char ':' e with
    | [h; d; _] -> ((n_ j, b (Util.bytes_of_hex h)), Obj.magic (Util.n_of_hex d))
    | _ -> failwith "chain") (String.split_on_char ',' s)

let handle fields impl : string option * string list =
  match fields with
  | ["embedded"; nepochs; _nroots; consts] ->
    if consts <> consts_field () then (Some "driver: compiled constants differ from K_header.v", []) else
    (* hypothesis of C03_never_panics, checked on the accumulator the node really embeds *)
    let fails = if int_of_string nepochs < int_n k_PreMergeEpochs
      then ["embedded-premerge-accumulator-too-short epochs=" ^ nepochs] else [] in
    (Some "ok", fails)
  | ["validate"; consts; _src; _hdr; number; hash; proof; epochs; roots; sums; oracle; truth] ->
    if consts <> consts_field () then (Some "driver: compiled constants differ from K_header.v", []) else
    let number = n_of_dec number in
    let hash = b (Util.bytes_of_hex hash) and proof = b (Util.bytes_of_hex proof) in
    let (nep, epochs) = sparse epochs and (_, roots) = sparse roots and (_, sums) = sparse sums in
    let oracle = match oracle with
      | "nil" -> None
      | "err" -> Some (Err (n_ 8))
      | s -> Some (Ok (snd (sparse s))) in
    let run guard = validate_sha guard epochs roots sums oracle number hash proof in
    let spec = run true in
    (* the two variants differ exactly where the repaired one reports the new bounds error *)
    let found = match spec with Err e when int_n e = 7 -> run false | r -> r in
    let model = show (if asfound then found else spec) in
    let honest = starts truth "honest" || truth = "vector" in
    let fails = ref [] in
    let fail k = fails := (k ^ " truth=" ^ truth ^ " impl=" ^ impl ^ " spec=" ^ show spec) :: !fails in
    (* soundness: the repaired model is proved sound (theorems C03_accept_...), so it is the specification of the accepting set *)
    if starts impl "ok" && spec <> Ok () then begin
      if starts truth "corrupt" then fail "accepted-corrupted-sibling"
      else if starts truth "wrongera" then fail "accepted-wrong-era"
      (* an honest proof re-labelled with another slot (whole periods away / across capella_start / past the accumulator end).
         That the spec rejects is not a matter of testing: by C03_accept_capella_to_deneb / C03_accept_post_deneb /
         C03_accept_merge_to_capella an accepted proof proves the leaf at the position fixed by the CLAIMED slot
         (summary_tree ... (pp_slot p), resp. historical root pp_slot p / 8192); by C03_summary_index_wrap a slot below
         capella_start addresses an index above 2^51 - 758 and by C03_summaries_underflow_err / C03_summaries_out_of_range_err /
         C03_roots_out_of_range_err that is an error for every real accumulator.  So "implementation accepted, proved-sound
         spec model says Err" is a violation of "a proof for another slot never verifies". *)
      else if starts truth "wrongslot" then fail "accepted-wrong-slot"
      else fail "accepted-forged-proof"
    end;
    (* completeness on what the generator built honestly *)
    if honest && not (starts impl "ok") then
      fail (if truth = "honest-partial-epoch" then "rejected-honest-proof-partial-epoch" else "rejected-honest-proof");
    (* totality: C03_never_panics assumes only that the pre-merge accumulator covers every pre-merge epoch *)
    if starts impl "panic" then begin
      let premerge = N.ltb number k_MergeBlockNumber in
      let outside_guarantee = premerge && nep < int_n k_PreMergeEpochs in
      if outside_guarantee then ()
      else if found = Panic && spec <> Panic && contains impl "index_out_of_range" then fail "validator-panics-slot-out-of-range"
      else fail "validator-panics-other"
    end;
    (* Util.run compares observables literally except for error classes: a panic message is informative only *)
    let model = if model = "panic" && starts impl "panic" then impl else model in
    (Some model, !fails)
  (* ---- sequences on ONE validator over fixed accumulators, all four eras (no oracle) ---- *)
  | ["sequence"; consts; _src; epochs; roots; sums; events] ->
    if consts <> consts_field () then (Some "driver: compiled constants differ from K_header.v", []) else
    let (_, epochs) = sparse epochs and (_, roots) = sparse roots and (_, sums) = sparse sums in
    let evs = List.map (fun e ->
      match String.split_on_char '~' e with
      | [number; _hdr; hash; proof; truth] ->
        ((((None, n_of_dec number), b (Util.bytes_of_hex hash)), b (Util.bytes_of_hex proof)), truth)
      | _ -> failwith "event") (String.split_on_char ';' events) in
    let res = run_history_sha true epochs roots sums (List.map fst evs) in
    let tok = function Ok _ -> "ok" | Err _ -> "e" | Panic -> "p" in
    let model = "ok " ^ String.concat "," (List.map (fun (v, _) -> tok v) res) in
    (* C03_history_step_verdict: the verdict of call k is validate_header_and_proof of ITS OWN inputs over the cache of that moment,
       C03_verdict_ignores_cache_before_shanghai: before Shanghai it does not depend on any state at all.  So whatever the validator
       remembers from earlier calls (e.g. that this header was once proved) must not change a verdict: the per-call clauses
       (a)-(c) are the specification of every step. *)
    let fails = ref [] in
    (match String.split_on_char ' ' impl with
     | ["ok"; iv] ->
       List.iteri (fun i (((_, truth), (mv, _)), v) ->
         let step = Printf.sprintf " step=%d truth=%s impl=%s spec=%s after-earlier-calls-on-the-same-validator" (i + 1) truth v (tok mv) in
         if v = "ok" && mv <> Ok () then
           fails := ((if starts truth "wrongslot" then "accepted-wrong-slot" else if starts truth "corrupt" then "accepted-corrupted-sibling"
                      else "accepted-forged-proof") ^ step) :: !fails;
         if truth = "honest" && v <> "ok" then fails := ("rejected-honest-proof" ^ step) :: !fails;
         if v = "p" then fails := ("validator-panics-other" ^ step) :: !fails)
         (List.combine (List.combine evs res) (String.split_on_char ',' iv))
     | _ -> fails := ["sequence-observable-malformed " ^ impl]);
    (Some model, List.rev !fails)
  (* ---- histories on ONE validator: the provider's cache is state (Model: validate_step / run_history) ---- *)
  | ["history"; consts; mode; k0; truth_list; events] ->
    if consts <> consts_field () then (Some "driver: compiled constants differ from K_header.v", []) else
    let tl = List.map b (Util.items_of_string truth_list) in
    let rec take k l = if k = 0 then [] else match l with [] -> [] | x :: t -> x :: take (k - 1) t in
    let evs = List.map (fun e ->
      match String.split_on_char '~' e with
      | number :: _hdr :: hash :: proof :: oracle :: truth :: par ->
        let o = if mode = "nil" then None
                else if oracle = "err" then Some (Err (n_ 8))
                else Some (Ok (take (int_of_string oracle) tl)) in
        let par = match par with [t] when mode = "scripted" -> t | _ -> "" in
        (((((o, n_of_dec number), b (Util.bytes_of_hex hash)), b (Util.bytes_of_hex proof)), truth), par)
      | _ -> failwith "event") (String.split_on_char ';' events) in
    let pars = List.map snd evs in
    let evs = List.map fst evs in
    let res = run_history_sha true [] [] (take (int_of_string k0) tl) (List.map fst evs) in
    (* OVERLAPPING calls (same tag, consecutive): C03_overlapping_calls_order_independent - with one oracle answer that extends the
       cache, the verdict of a call is the same whether it runs before or after the others of its group, so the sequential
       run IS the specification of every interleaving; the cache is observed once, after the whole group *)
    let res =
      let arr = Array.of_list res and pa = Array.of_list pars in
      let n = Array.length arr in
      for i = n - 2 downto 0 do
        if pa.(i) <> "" && pa.(i) = pa.(i + 1) then arr.(i) <- (fst arr.(i), snd arr.(i + 1))
      done;
      Array.to_list arr in
    let overlapping = Array.of_list (List.mapi (fun i p ->
      p <> "" && ((i > 0 && List.nth pars (i - 1) = p) || (i + 1 < List.length pars && List.nth pars (i + 1) = p))) pars) in
    let index_of (r : byte list) =
      let rec go i = function [] -> "?" | t :: rest -> if ub t = ub r then string_of_int i else go (i + 1) rest in go 0 tl in
    let tok = function Ok _ -> "ok" | Err _ -> "e" | Panic -> "p" in
    let cache_str c = match c with [] -> "-" | _ -> String.concat "." (List.map index_of c) in
    let model = "ok " ^ String.concat "," (List.map (fun (v, _) -> tok v) res) ^ " " ^ String.concat "/" (List.map (fun (_, c) -> cache_str c) res) in
    (* per-step monitors on the IMPLEMENTATION's verdicts and caches.  C03_history_cache_is_true_prefix: with oracle answers that
       are prefixes of one true list the cache is, after every call, a prefix of that list; C03_history_accept_*: an accepted
       proof proves the leaf at the position fixed by its claimed slot in the TRUE summary of that index - so the model verdict
       is the specification at every step *)
    let fails = ref [] in
    (match String.split_on_char ' ' impl with
     | ["ok"; iv; ic] ->
       let iv = String.split_on_char ',' iv and ic = String.split_on_char '/' ic in
       List.iteri (fun i (((_, truth), (mv, _)), (v, cs)) ->
         let step = Printf.sprintf " step=%d truth=%s impl=%s spec=%s cache=%s%s" (i + 1) truth v (tok mv) cs
                      (if overlapping.(i) then " overlapping-calls" else "") in
         if v = "ok" && mv <> Ok () then
           fails := ((if starts truth "wrongslot" then "accepted-wrong-slot" else if truth = "corrupt" then "accepted-corrupted-sibling"
                      else "accepted-forged-proof") ^ step) :: !fails;
         if truth = "honest" && v <> "ok" then fails := ("rejected-honest-proof" ^ step) :: !fails;
         if v = "p" then fails := ("validator-panics-other" ^ step) :: !fails;
         (* the cache must be the first k true summaries, in order *)
         let ids = if cs = "-" then [] else String.split_on_char '.' cs in
         if List.mapi (fun j _ -> string_of_int j) ids <> ids then fails := ("summaries-cache-misaligned" ^ step) :: !fails)
         (List.combine (List.combine evs res) (List.combine iv ic))
     | _ -> fails := ["history-observable-malformed " ^ impl]);
    (Some model, List.rev !fails)
  (* ---- the prover: real NewAccumulator/Update/Finish + BuildProof vs Model/HeaderProver.v ---- *)
  | ["prover"; consts; chain; idx] ->
    if consts <> consts_field () then (Some "driver: compiled constants differ from K_header.v", []) else
    let hs = parse_chain chain in
    let idx = List.map int_of_string (String.split_on_char ',' idx) in
    let model_roots = match build_accumulator_sha hs with Ok l -> Some (List.map ub l) | _ -> None in
    let rec take k l = if k = 0 then [] else match l with [] -> [] | x :: t -> x :: take (k - 1) t in
    let proof_of i =
      let e = i / 8192 in
      match acc_run_sha acc_new (take ((e + 1) * 8192) hs) with
      | Ok a -> Some (List.concat (List.map ub (build_proof_sha (a_chunks a) (n_ i))))
      | _ -> None in
    let model_proofs = List.map proof_of idx in
    let model = match model_roots with
      | Some r when List.for_all (fun p -> p <> None) model_proofs ->
        "ok " ^ Util.string_of_items r ^ " " ^ Util.string_of_items (List.map (function Some p -> p | None -> []) model_proofs)
      | _ -> "err" in
    (* C03_built_proof_verifies: against the roots of the MODEL builder every proof of the model prover verifies; an
       implementation that produces other roots or other proofs has left that specification (the validate lines that follow
       then show whether its own verifier still accepts its own proofs) *)
    let fails = ref [] in
    (match String.split_on_char ' ' impl, String.split_on_char ' ' model with
     | ["ok"; ir; ip], ["ok"; mr; mp] ->
       if ir <> mr then fails := ("accumulator-root-differs-from-spec chain_len=" ^ string_of_int (List.length hs) ^ " impl=" ^ ir ^ " spec=" ^ mr) :: !fails;
       if ip <> mp then fails := ("built-proof-differs-from-spec chain_len=" ^ string_of_int (List.length hs)) :: !fails
     | _ -> if not (starts impl "ok") then fails := ("prover-fails-on-honest-chain impl=" ^ impl) :: !fails);
    (Some model, !fails)
  (* ---- back-to-back provers in one process: the specification has no memory, accumulator A is irrelevant ---- *)
  | ["proverseq"; consts; _chain_a; chain_b; mode] ->
    if consts <> consts_field () then (Some "driver: compiled constants differ from K_header.v", []) else
    let hs = parse_chain chain_b in
    let model = match build_accumulator_sha hs, acc_run_sha acc_new hs with
      | Ok roots, Ok a ->
        let proofs = List.mapi (fun i _ -> List.concat (List.map ub (build_proof_sha (a_chunks a) (n_ i)))) hs in
        (* C03_built_proof_verifies_sha: every one of these proofs verifies against these roots *)
        "ok " ^ Util.string_of_items (List.map ub roots) ^ " " ^ Util.string_of_items proofs ^ " " ^ String.concat "," (List.map (fun _ -> "ok") hs)
      | _ -> "err" in
    let fails = ref [] in
    let ctx = " after-another-accumulator mode=" ^ mode ^ " chain_len=" ^ string_of_int (List.length hs) in
    (match String.split_on_char ' ' impl, String.split_on_char ' ' model with
     | ["ok"; ir; ip; iv], ["ok"; mr; mp; _] ->
       if ir <> mr then fails := ("accumulator-root-differs-from-spec" ^ ctx) :: !fails;
       if ip <> mp then begin
         let il = String.split_on_char ',' ip and ml = String.split_on_char ',' mp in
         let bad = List.filter (fun i -> List.nth_opt il i <> List.nth_opt ml i) (List.init (List.length ml) (fun i -> i)) in
         fails := ("prover-output-differs-from-spec" ^ ctx ^ " records=" ^ String.concat "," (List.map string_of_int bad)) :: !fails
       end;
       List.iteri (fun i v -> if v <> "ok" then fails := (Printf.sprintf "honest-proof-rejected%s record=%d" ctx i) :: !fails) (String.split_on_char ',' iv)
     | _ -> if not (starts impl "ok") then fails := ("prover-fails-on-honest-chain" ^ ctx ^ " impl=" ^ impl) :: !fails);
    (Some model, List.rev !fails)
  | ["bhwp"; consts; _chain; _i] ->
    if consts <> consts_field () then (Some "driver: compiled constants differ from K_header.v", []) else
    (* BuildHeaderWithProof = BuildProof + the header's RLP; its output is validated by the validate line that follows *)
    (None, if starts impl "ok" then [] else ["build-header-with-proof-fails impl=" ^ impl])
  | _ -> (Some "driver: unknown line", [])

let () = Util.run handle
