(* drv_c14_more.ml : table entries of the second batch of C14 types (history network containers) *)
open C14_model
let types : (string * ty * string list) list = [
  ("HashesAcc", THashesAcc, ["Proof"]);
  ("ProofRoots", TProofRoots, ["BeaconBlockProof"; "BeaconBlockRoot"; "ExecutionBlockProof"; "Slot"]);
  ("ProofCapella", TProofCapella, ["BeaconBlockProof"; "BeaconBlockRoot"; "ExecutionBlockProof"; "Slot"]);
  ("ProofDeneb", TProofDeneb, ["BeaconBlockProof"; "BeaconBlockRoot"; "ExecutionBlockProof"; "Slot"]);
  ("HeaderWithProof", THeaderWithProof, ["Header"; "Proof"]);
  ("FindEphKey", TFindEphKey, ["BlockHash"; "AncestorCount"]);
  ("EphPayload", TEphPayload, ["Payload"]);
  ("OfferEphKey", TOfferEphKey, ["BlockHash"]);
  ("OfferEphHeader", TOfferEphHeader, ["Header"]);
  ("Receipts", TReceipts, ["Receipts"]);
  ("HeaderRecord", THeaderRecord, ["BlockHash"; "TotalDifficulty"]);
  ("LcUpdateKey", TLcUpdateKey, ["StartPeriod"; "Count"]);
  ("LcBootstrapKey", TLcBootstrapKey, ["BlockHash"]);
  ("LcFinalityKey", TLcFinalityKey, ["FinalizedSlot"]);
  ("LcOptimisticKey", TLcOptimisticKey, ["OptimisticSlot"]);
  ("BodyLegacy", TBodyLegacy, ["Transactions"; "Uncles"]);
  ("BodyShanghai", TBodyShanghai, ["Transactions"; "Uncles"; "Withdrawals"]);
  ("EpochAcc", TEpochAcc, ["HeaderRecords"]);
  ("HeaderWithProofH", THeaderWithProofH, ["Header"; "Proof"]);
  ("SSZProof", TSSZProof, ["Leaf"; "Witnesses"]);
  ("MasterAcc", TMasterAcc, ["HistoricalEpochs"]);
]
(* second table: state network (ztyp) and the ztyp beacon key *)
let types2 : (string * ty2 * string list) list = [
  ("AccountTrieNodeKey", TAccountTrieNodeKey, ["Path"; "NodeHash"]);
  ("StorageTrieNodeKey", TStorageTrieNodeKey, ["AddressHash"; "Path"; "NodeHash"]);
  ("BytecodeKey", TBytecodeKey, ["AddressHash"; "CodeHash"]);
  ("TrieNode", TTrieNode, ["Node"]);
  ("TrieProof", TTrieProof, ["Proof"]);
  ("BytecodeContainer", TBytecodeContainer, ["Code"]);
  ("AccountTrieNodeWithProof", TAccountTrieNodeWithProof, ["Proof"; "BlockHash"]);
  ("StorageTrieNodeWithProof", TStorageTrieNodeWithProof, ["StorageProof"; "AccountProof"; "BlockHash"]);
  ("BytecodeWithProof", TBytecodeWithProof, ["Code"; "AccountProof"; "BlockHash"]);
  ("HistSummariesKey", THistSummariesKey, ["Epoch"]);
  ("CustomPayload", TCustomPayload, ["Payload"]);
]
let consts : (string * string) list = []
