(* drv_c14_more.ml : table entries of the second batch of C14 types (history network containers) *)
open C14_model
let types : (string * ty * string list) list = [
  ("HashesAcc", THashesAcc, ["Proof"]);
  ("ProofRoots", TProofRoots, ["BeaconBlockProof"; "BeaconBlockRoot"; "ExecutionBlockProof"; "Slot"]);
  ("ProofCapella", TProofCapella, ["BeaconBlockProof"; "BeaconBlockRoot"; "ExecutionBlockProof"; "Slot"]);
  ("ProofDeneb", TProofDeneb, ["BeaconBlockProof"; "BeaconBlockRoot"; "ExecutionBlockProof"; "Slot"]);
  ("HeaderWithProof", THeaderWithProof, ["Header"; "Proof"]);
  ("FindEphKey", TFindEphKey, ["BlockHash"; "AncestorCount"]);
  ("EphPayload", TEphPayload, ["Payload"]);
  ("OfferEphKey", TOfferEphKey, ["BlockHash"]);
  ("OfferEphHeader", TOfferEphHeader, ["Header"]);
  ("Receipts", TReceipts, ["Receipts"]);
  ("HeaderRecord", THeaderRecord, ["BlockHash"; "TotalDifficulty"]);
  ("LcUpdateKey", TLcUpdateKey, ["StartPeriod"; "Count"]);
  ("LcBootstrapKey", TLcBootstrapKey, ["BlockHash"]);
  ("LcFinalityKey", TLcFinalityKey, ["FinalizedSlot"]);
  ("LcOptimisticKey", TLcOptimisticKey, ["OptimisticSlot"]);
  ("BodyLegacy", TBodyLegacy, ["Transactions"; "Uncles"]);
  ("BodyShanghai", TBodyShanghai, ["Transactions"; "Uncles"; "Withdrawals"]);
  ("EpochAcc", TEpochAcc, ["HeaderRecords"]);
  ("HeaderWithProofH", THeaderWithProofH, ["Header"; "Proof"]);
  ("SSZProof", TSSZProof, ["Leaf"; "Witnesses"]);
  ("MasterAcc", TMasterAcc, ["HistoricalEpochs"]);
]
(* second table: state network (ztyp) and the ztyp beacon key *)
let types2 : (string * ty2 * string list) list = [
  ("AccountTrieNodeKey", TAccountTrieNodeKey, ["Path"; "NodeHash"]);
  ("StorageTrieNodeKey", TStorageTrieNodeKey, ["AddressHash"; "Path"; "NodeHash"]);
  ("BytecodeKey", TBytecodeKey, ["AddressHash"; "CodeHash"]);
  ("TrieNode", TTrieNode, ["Node"]);
  ("TrieProof", TTrieProof, ["Proof"]);
  ("BytecodeContainer", TBytecodeContainer, ["Code"]);
  ("AccountTrieNodeWithProof", TAccountTrieNodeWithProof, ["Proof"; "BlockHash"]);
  ("StorageTrieNodeWithProof", TStorageTrieNodeWithProof, ["StorageProof"; "AccountProof"; "BlockHash"]);
  ("BytecodeWithProof", TBytecodeWithProof, ["Code"; "AccountProof"; "BlockHash"]);
  ("HistSummariesKey", THistSummariesKey, ["Epoch"]);
  ("CustomPayload", TCustomPayload, ["Payload"]);
]
let consts : (string * string) list = []

(* Observation, not a C14 violation (recorded in DESIGN.md): for these types the UNCHANGED decoder is receiver-dependent -
   decoding into an object that was decoded into before appends to / keeps the old contents (the stock fastssz
   `if cap(x)==0 {make}; x = append(x, buf...)` on []byte fields; ztyp ByteList keeping a longer old length, ztyp list
   decoders appending).  That is the libraries' receiver convention (receivers are expected to be fresh) and every call
   site in the node decodes into a fresh object; the property quantifies over values and byte strings, not over dirty
   receivers.  Their `redec` lines are therefore not compared at all. *)
let receiver_dependent : string list = [
  "Accept";
  "AcceptV1";
  "AccountTrieNodeWithProof";
  "BodyLegacy";
  "BodyShanghai";
  "BytecodeContainer";
  "BytecodeWithProof";
  "Capabilities";
  "ClientInfo";
  "ConnectionId";
  "Content";
  "CustomPayload";
  "ErrorPayload";
  "FindContent";
  "FindEphKey";
  "HeaderRecord";
  "HeaderWithProof";
  "HeaderWithProofH";
  "LcBootstrapKey";
  "OfferEphHeader";
  "OfferEphKey";
  "Ping";
  "Pong";
  "ProofCapella";
  "ProofDeneb";
  "ProofRoots";
  "SSZProof";
  "StorageTrieNodeWithProof";
  "TrieNode";
  "TrieProof";
]
