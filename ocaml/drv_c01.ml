(* drv_c01.ml : C01 - model side (index / slice totality of the entry points) and monitors.
   Comparison is on the projection {nopanic, panic}; for uTP stream bodies and the beacon historical-summaries
   record also on ok / err (those parts are modelled completely). *)
open C01_model
let b (l : int list) : byte list = Obj.magic l
let n_ (k : int) : n = Obj.magic (Util.n_of_int k)
let starts s p = String.length s >= String.length p && String.sub s 0 (String.length p) = p

let proj (impl : string) = if starts impl "panic" then "panic" else if starts impl "hang" then "hang" else "nopanic"
let np = function Panic -> "panic" | _ -> "nopanic"
let oe = function Ok _ -> "ok" | Err _ -> "err" | Panic -> "panic"

(* the one beacon record that lives under a constant key; mirrors the adapter's state across the lines of a run *)
let summaries : byte list option ref = ref None

let key_types = function
  | "history" -> List.map n_ [0; 1; 2; 3]
  | "beacon" -> List.map n_ [0x10; 0x11; 0x12; 0x13; 0x14]
  | _ -> List.map n_ [0x20; 0x21; 0x22]

let monitor kind net impl =
  if starts impl "panic" then
    let site = match kind with
      | "talk" -> "talk-handler-panics"
      | "pong" | "nodes" | "content" | "offer" -> "response-processor-panics-" ^ kind
      | "stream" -> "offered-contents-panics"
      | "validate" -> "validator-panics-" ^ net
      | _ -> "storage-adapter-panics-" ^ net in
    [site ^ " " ^ impl]
  else if starts impl "hang" then ["call-does-not-return-" ^ kind ^ " (20 s watchdog)"]
  else []

let handle fields impl : string option * string list =
  match fields with
  | [kind; net; h] when List.mem kind ["talk"; "pong"; "nodes"; "content"; "offer"; "get"] ->
    let data = b (Util.bytes_of_hex h) in
    let model = match kind with
      | "talk" -> np (m_talk true data)
      | "pong" -> np (m_pong data)
      | "nodes" -> np (m_nodes data)
      | "offer" -> np (m_accept data)
      | "content" -> np (m_content true data)
      | _ ->
        (* get: history tests the ephemeral type first, beacon dispatches on key[0], state passes the key through *)
        (match net with
         | "history" -> np (history_is_ephemeral true (n_ 5) data)
         | "beacon" ->
           (match Util.bytes_of_hex h with
            | 0x14 :: _ -> oe (beacon_get_summaries true data !summaries)
            | _ -> np (m_key true (key_types net) data))
         | _ -> "nopanic") in
    let impl_p = if model = "ok" || model = "err" then (if starts impl "ok" then "ok" else if starts impl "err" then "err" else proj impl) else proj impl in
    ((if model = impl_p then None else Some ("model=" ^ model ^ " impl=" ^ impl_p)), monitor kind net impl)
  | ["streamfull"; net; nk; h] ->
    (* queue full: the items are discarded or the stream is rejected, and the call returns (same verdict as with room) *)
    let model = oe (handle_offered_contents (Obj.magic (Util.nat_of_int (int_of_string nk))) (b (Util.bytes_of_hex h))) in
    let impl_p = if starts impl "ok" then "ok" else if starts impl "err" then "err" else proj impl in
    ((if model = impl_p then None else Some ("model=" ^ model ^ " impl=" ^ impl_p)), monitor "stream" net impl)
  | ["stream"; net; nk; h] ->
    let model = oe (handle_offered_contents (Obj.magic (Util.nat_of_int (int_of_string nk))) (b (Util.bytes_of_hex h))) in
    let impl_p = if starts impl "ok" then "ok" else if starts impl "err" then "err" else proj impl in
    ((if model = impl_p then None else Some ("model=" ^ model ^ " impl=" ^ impl_p)), monitor "stream" net impl)
  | [kind; net; k; c] when kind = "validate" || kind = "put" ->
    let key = b (Util.bytes_of_hex k) in
    let is_summ = (match Util.bytes_of_hex k with 0x14 :: _ -> true | _ -> false) in
    if kind = "put" && net = "beacon" && is_summ then begin
      let r = beacon_put_summaries true key (b (Util.bytes_of_hex c)) !summaries in
      (match r with Ok st -> if starts impl "ok" then summaries := st | _ -> ());
      let model = oe r in
      let impl_p = if starts impl "ok" then "ok" else if starts impl "err" then "err" else proj impl in
      ((if model = impl_p then None else Some ("model=" ^ model ^ " impl=" ^ impl_p)), monitor kind net impl)
    end else begin
      let model = (match kind, net with
        | "put", "history" -> np (history_is_ephemeral true (n_ 5) key)
        | _ -> np (m_key true (key_types net) key)) in
      ((if model = proj impl then None else Some ("model=" ^ model ^ " impl=" ^ proj impl)), monitor kind net impl)
    end
  | ["liveflood"; proto; n] ->
    ((if impl = "alive" then None else Some "model=alive"),
     (if impl = "dead" then ["node-killed-by-remote-input-" ^ proto ^ " the child process died during a flood of " ^ n ^ " uTP datagrams after an empty one"]
      else if impl = "silent" then ["node-silent-after-remote-input-" ^ proto ^ " after an empty uTP TALKREQ and " ^ n ^ " uTP datagrams the uTP talk handler no longer answers (three TALKREQs in a row unanswered)"] else []))
  | ["live"; proto; _] ->
    (* the model's verdict for every input is "no panic", hence the node survives *)
    ((if impl = "alive" then None else Some "model=alive"),
     (if impl = "dead" then ["node-killed-by-remote-input-" ^ proto ^ " the child process running a full node died after this TALKREQ"]
      else if impl = "silent" then ["node-silent-after-remote-input-" ^ proto ^ " no TALKRESP and no PONG any more"] else []))
  | _ -> (Some "driver: unknown line", [])

(* Util.run compares the returned model string with the implementation observable; here the comparison is on a
   projection, so a mismatch is returned as Some text (never equal to impl) and agreement as None *)
let () = Util.run handle
