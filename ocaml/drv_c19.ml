(* drv_c19.ml : model side of the C19 correspondence, and monitors over implementation observations *)
open C19_model
let b (l : int list) : byte list = Obj.magic l
let ub (l : byte list) : int list = Obj.magic l
let n_ (k : int) : n = Obj.magic (Util.n_of_int k)
let int_n (x : n) : int = Util.int_of_n (Obj.magic x)
let vl (h : string) : n list = List.map n_ (Util.bytes_of_hex h)      (* version list: one byte per version *)
let ivl (h : string) : int list = Util.bytes_of_hex h

let starts s p = String.length s >= String.length p && String.sub s 0 (String.length p) = p

(* r = version | e | p *)
let show_r = function Ok v -> string_of_int (int_n v) | Err _ -> "e" | Panic -> "p"

(* the specification, computed independently of the model: max of the intersection *)
let spec_max (a : int list) (b : int list) : int option =
  List.fold_left (fun acc x -> if List.mem x b then (match acc with Some m when m >= x -> acc | _ -> Some x) else acc) None a

(* "k=v" fields of an observable *)
let field (obs : string) (k : string) : string =
  let parts = String.split_on_char ' ' obs in
  let pre = k ^ "=" in
  match List.find_opt (fun p -> starts p pre) parts with
  | Some p -> String.sub p (String.length pre) (String.length p - String.length pre)
  | None -> "?"

let entry kind peer = match kind with
  | "missing" -> PvMissing
  | "malformed" -> PvMalformed
  | _ -> PvList (vl peer)

let supported v = v = 0 || v = 1

let handle fields impl : string option * string list =
  match fields with
  | ["fbs"; a; bb] ->
    let m = match find_biggest_same (vl a) (vl bb) with
      | (v, None) -> Printf.sprintf "ok %d" (int_n v)
      | (_, Some e) -> Printf.sprintf "err %d" (int_n e) in
    let mons =
      match spec_max (ivl a) (ivl bb) with
      | Some mx -> if impl = Printf.sprintf "ok %d" mx then [] else if starts impl "err" then ["version-error-with-common-version helper, spec=" ^ string_of_int mx]
                   else ["version-not-max-common helper, spec=" ^ string_of_int mx ^ " impl=" ^ impl]
      | None -> if starts impl "err" then [] else ["version-ok-without-common-version helper impl=" ^ impl] in
    (Some m, mons)
  | ["gos"; own; kind; peer] ->
    let (r1, c1) = get_or_store (vl own) empty_cache (n_ 0) (entry kind peer) in
    let (r1', r2) = get_twice (vl own) empty_cache (n_ 0) (entry kind peer) in
    let cached = match c1 (n_ 0) with Some v -> string_of_int (int_n v) | None -> "none" in
    let m = Printf.sprintf "ok r1=%s r2=%s cached=%s" (show_r r1) (show_r r2) cached in
    ignore r1';
    let i1 = field impl "r1" and i2 = field impl "r2" in
    let mons =
      if kind = "list" then begin
        match spec_max (ivl own) (ivl peer) with
        | Some mx ->
          (if i1 = string_of_int mx then [] else if i1 = "e" then ["version-error-with-common-version spec=" ^ string_of_int mx]
           else ["version-not-max-common spec=" ^ string_of_int mx ^ " impl=" ^ i1]) @
          (if i2 = i1 then [] else ["version-changes-on-second-call first=" ^ i1 ^ " second=" ^ i2])
        | None ->
          (if i1 = "e" then [] else ["version-ok-without-common-version impl=" ^ i1]) @
          (if i2 = "e" then [] else ["version-cached-after-no-common-version second call answered " ^ i2 ^ " without error"])
      end else if kind = "missing" then begin
        match ivl own with
        | v0 :: _ -> if i1 = string_of_int v0 && i2 = i1 then [] else ["version-missing-entry-not-base impl=" ^ i1 ^ "," ^ i2]
        | [] -> []
      end else (if i1 = "e" && i2 = "e" then [] else ["version-malformed-entry-accepted impl=" ^ i1 ^ "," ^ i2]) in
    (Some m, mons)
  | ["sym"; a; bb] ->
    let m = Printf.sprintf "ok ab=%s ba=%s" (show_r (negotiate (vl a) (vl bb))) (show_r (negotiate (vl bb) (vl a))) in
    let ab = field impl "ab" and ba = field impl "ba" in
    (Some m, if ab = ba then [] else ["version-asymmetric ab=" ^ ab ^ " ba=" ^ ba])
  | ["frame"; a; bb; h] ->
    let data = b (Util.bytes_of_hex h) in
    let m = match node_encode_utp (vl a) empty_cache (n_ 1) (PvList (vl bb)) data with
      | Ok w -> (match node_decode_utp (vl bb) empty_cache (n_ 0) (PvList (vl a)) w with
          | Ok d -> "ok " ^ Util.hex_of_bytes (ub d) | Err e -> Printf.sprintf "err %d" (int_n e) | Panic -> "panic")
      | Err e -> Printf.sprintf "err %d" (int_n e)
      | Panic -> "panic" in
    let mons = match spec_max (ivl a) (ivl bb) with
      | Some _ -> if impl = "ok " ^ h then [] else ["version-framing-mismatch sender and receiver disagree: " ^ impl]
      | None -> if starts impl "err" then [] else ["version-transfer-without-common-version " ^ impl] in
    (Some m, mons)
  | ["accenc"; own; _tablepv; kind; pv; _ex; _n] ->
    let pv = if kind = "list" then pv else "-" in
    let m = match fst (get_or_store (vl own) empty_cache (n_ 0) (entry kind pv)) with
      | Ok v -> (match accept_kind_of v with
          | Ok AcceptBitlist -> "ok enc=0" | Ok AcceptCodes -> "ok enc=1" | _ -> "err")
      | _ -> "err" in
    (* specification independent of the model: the encoding is the one of the version negotiated from the record of the
       REQUEST (max common; own first-listed version when it has no pv entry), whatever the table holds and whether or not
       a slot is free *)
    let spec = if kind = "list" then spec_max (ivl own) (ivl pv) else (match ivl own with v0 :: _ -> Some v0 | [] -> None) in
    let mons =
      if starts impl "ok" then begin
        let e = field impl "enc" in
        match spec with
        | Some v when supported v && e <> string_of_int v ->
          [Printf.sprintf "accept-encoded-in-wrong-version negotiated version %d, reply is in encoding %s" v e]
        | Some v when not (supported v) -> ["accept-sent-for-unsupported-version " ^ impl]
        | None -> ["accept-sent-without-common-version " ^ impl]
        | _ -> []
      end else if starts impl "panic" then ["handle-talk-request-panics " ^ impl] else [] in
    (Some m, mons)
  | ["accfull"; _own; _pv; _n] ->
    (* no model observable (the per-key verdicts are C09's model); the property clause checked on the implementation:
       keys are announced accepted exactly when a connection id to send them on is announced *)
    let mons =
      if starts impl "ok" then begin
        let acc = (try int_of_string (field impl "acc") with _ -> -1) and cid = field impl "cid" in
        (if acc > 0 && cid = "z" then [Printf.sprintf "accept-without-connection-id %d keys marked accepted, connection id 0" acc] else []) @
        (if acc = 0 && cid = "nz" then ["connection-id-without-accepted-key"] else [])
      end else if starts impl "panic" then ["handle-talk-request-panics " ^ impl] else [] in
    (None, mons)
  | ["hist"; own; steps] ->
    let parse part = match String.split_on_char ':' part with
      | [i; kind; pv] ->
        let (id, seq) = (match String.split_on_char '.' i with
            | [a; s] -> (int_of_string a, int_of_string s) | _ -> (int_of_string i, 0)) in
        (id, seq, kind, pv)
      | _ -> failwith "hist step" in
    let st = List.map parse (String.split_on_char ';' steps) in
    (* cache key = the record object: rec_key (node id) (sequence number) *)
    let (rs, _) = gos_history (vl own) empty_cache (List.map (fun (id, seq, kind, pv) -> (rec_key (n_ id) (n_ seq), entry kind pv)) st) in
    let m = Printf.sprintf "ok r=%s own=%s" (String.concat "," (List.map show_r rs)) (String.concat "," (List.map (fun _ -> own) st)) in
    let irs = String.split_on_char ',' (field impl "r") and iowns = String.split_on_char ',' (field impl "own") in
    (* specification, independent of the model: own list untouched after every call; the FIRST call with a record is
       answered from that record alone (no pv: own's first-listed version; pv: the max common one), whatever was negotiated
       with other records - other records of the same node included *)
    let seen = Hashtbl.create 8 and by_ident = Hashtbl.create 8 in
    let mons = List.concat (List.mapi (fun k (id, seq, kind, pv) ->
        let r = (try List.nth irs k with _ -> "?") and o = (try List.nth iowns k with _ -> "?") in
        let fresh = not (Hashtbl.mem seen (id, seq)) in
        Hashtbl.replace seen (id, seq) ();
        let earlier = Hashtbl.find_all by_ident id in
        Hashtbl.add by_ident id r;
        let wrong what = if earlier <> [] && List.mem r earlier
          then [Printf.sprintf "version-taken-from-another-record call %d with record %d.%d answered %s (an earlier record of that node got it), %s" k id seq r what]
          else [Printf.sprintf "%s history call %d impl=%s" what k r] in
        (if o <> own then [Printf.sprintf "own-version-list-mutated after call %d the instance lists %s instead of %s" k o own] else []) @
        (if fresh && kind = "missing" then
           (match ivl own with
            | v0 :: _ when r <> string_of_int v0 -> wrong (Printf.sprintf "version-missing-entry-not-base base=%d" v0)
            | _ -> [])
         else if fresh && kind = "list" then
           (match spec_max (ivl own) (ivl pv) with
            | Some mx when r <> string_of_int mx -> wrong (Printf.sprintf "version-not-max-common spec=%d" mx)
            | None when r <> "e" -> wrong "version-ok-without-common-version"
            | _ -> [])
         else [])) st) in
    (Some m, mons)
  | ["live"; a; bb; _] ->
    let r = negotiate (vl a) (vl bb) in
    let offer, find = match r with
      | Ok v -> ((match accept_kind_of v with Ok _ -> "delivered" | _ -> "refused"), "delivered-flag0")
      | _ -> ("refused", "refused") in
    let m = Printf.sprintf "ok va=%s vb=%s offer=%s find=%s" (show_r r) (show_r (negotiate (vl bb) (vl a))) offer find in
    let va = field impl "va" and vb = field impl "vb" in
    let mons =
      (if va = vb then [] else ["version-asymmetric live va=" ^ va ^ " vb=" ^ vb]) @
      (match spec_max (ivl a) (ivl bb) with
       | Some mx ->
         (if va = string_of_int mx then [] else ["version-not-max-common live spec=" ^ string_of_int mx ^ " impl=" ^ va]) @
         (if supported mx && field impl "offer" <> "delivered" then ["live-offer-failed-with-common-version " ^ impl] else []) @
         (if supported mx && not (starts (field impl "find") "delivered-flag") then ["live-findcontent-failed-with-common-version " ^ impl] else [])
       | None -> if field impl "offer" = "refused" then [] else ["version-transfer-without-common-version live " ^ impl]) in
    (Some m, mons)
  | _ -> (Some "driver: unknown line", [])

let () = Util.run handle
