(* drv_c14.ml : model side of the C14 correspondence (SSZ wire codecs) and monitors over implementation observations *)
open C14_model
let b (l : int list) : byte list = Obj.magic l
let ub (l : byte list) : int list = Obj.magic l
let bl (l : int list list) : byte list list = Obj.magic l
let ubl (l : byte list list) : int list list = Obj.magic l
let n_of_util (x : Util.n) : n = Obj.magic x
let util_of_n (x : n) : Util.n = Obj.magic x
let int_n (x : n) : int = Util.int_of_n (util_of_n x)

(* decimal <-> N for values up to 2^64 - 1 (unsigned int64 as the carrier) *)
let n_of_dec (s : string) : n =
  let i = Int64.of_string ("0u" ^ s) in
  n_of_util (Util.n_of_hex (Printf.sprintf "%Lx" i))
let dec_of_n (x : n) : string =
  let h = Util.hex_of_n (util_of_n x) in
  if String.length h > 16 then "0x" ^ h
  else Printf.sprintf "%Lu" (Int64.of_string ("0x" ^ h))

(* name, model type, field names (for the monitor keys) *)
let types : (string * ty * string list) list = [
  ("Ping", TPing, ["EnrSeq"; "PayloadType"; "Payload"]);
  ("Pong", TPong, ["EnrSeq"; "PayloadType"; "Payload"]);
  ("FindNodes", TFindNodes, ["Distances"]);
  ("FindContent", TFindContent, ["ContentKey"]);
  ("Offer", TOffer, ["ContentKeys"]);
  ("Nodes", TNodes, ["Total"; "Enrs"]);
  ("ConnectionId", TConnectionId, ["Id"]);
  ("Content", TContent, ["Content"]);
  ("Enrs", TEnrs, ["Enrs"]);
  ("Accept", TAccept, ["ConnectionId"; "ContentKeys"]);
  ("AcceptV1", TAcceptV1, ["ConnectionId"; "ContentKeys"]);
  ("ClientInfo", TClientInfo, ["ClientInfo"; "DataRadius"; "Capabilities"]);
  ("BasicRadius", TBasicRadius, ["DataRadius"]);
  ("HistoryRadius", THistoryRadius, ["DataRadius"; "EphemeralHeaderCount"]);
  ("ErrorPayload", TErrorPayload, ["ErrorCode"; "Message"]);
  ("Capabilities", TCapabilities, ["Capabilities"]);
] @ Drv_c14_more.types

(* a uniform view of one modelled type (first table: Model/Wire.v ty, second table: Model/WireState.v ty2) *)
type codec = {
  c_schema : kind list;
  c_enc : field list -> byte list res;
  c_dec_code : byte list -> field list res;    (* the decoder the tree has *)
  c_dec_spec : byte list -> field list res;    (* the strict decoder *)
  c_quirk : byte list -> string;               (* which known laxity explains an acceptance the strict decoder refuses *)
  c_limits : field list -> bool list;
  c_wf : field list -> bool;
}
let is_ok = function Ok _ -> true | _ -> false
let codec1 (t : ty) : codec = {
  c_schema = schema t; c_enc = enc_any t; c_dec_code = dec_code t; c_dec_spec = dec_spec t;
  c_quirk = (fun data ->
    if is_ok (dec_spec t data) then "other"
    else if is_ok (dec_any false true false t data) then "zero-offset"
    else if is_ok (dec_any true false false t data) then "trailing-bytes"
    else "other");
  c_limits = limits_any t; c_wf = wf_any t }
let codec2 (t : ty2) : codec = {
  c_schema = schema2 t; c_enc = enc_any2 t; c_dec_code = dec_any2 code_strict_state_fixed_keys t; c_dec_spec = dec_any2 true t;
  c_quirk = (fun data ->
    if is_ok (dec_any2 true t data) then "other"
    else if is_ok (dec_any2 false t data) then "trailing-bytes" else "other");
  c_limits = limits_any2 t; c_wf = wf_any2 t }
let all_types : (string * codec * string list) list =
  List.map (fun (n, t, f) -> (n, codec1 t, f)) types @ List.map (fun (n, t, f) -> (n, codec2 t, f)) Drv_c14_more.types2

let find_type name = List.find (fun (n, _, _) -> n = name) all_types

let parse_field (k : kind) (s : string) : field =
  match k with
  | KN -> FN (n_of_dec s)
  | KB -> FB (b (Util.bytes_of_hex s))
  | KL -> FL (bl (Util.items_of_string s))
  | KNL -> FNL (if s = "." then [] else List.map n_of_dec (String.split_on_char ',' s))

let parse_dump (t : codec) (s : string) : field list =
  let parts = String.split_on_char '/' s in
  let ks = t.c_schema in
  if List.length parts <> List.length ks then failwith "dump shape" else List.map2 parse_field ks parts

let show_field = function
  | FN x -> dec_of_n x
  | FB x -> Util.hex_of_bytes (ub x)
  | FL l -> Util.string_of_items (ubl l)
  | FNL l -> (match l with [] -> "." | _ -> String.concat "," (List.map dec_of_n l))
let dump (fs : field list) : string = String.concat "/" (List.map show_field fs)

let starts s p = String.length s >= String.length p && String.sub s 0 (String.length p) = p
let after s k = String.sub s k (String.length s - k)

let nstr x = string_of_int (int_n x)
let consts : (string * string) list = [
  ("tag_Ping_Payload", nstr l_PingPayload); ("tag_Pong_Payload", nstr l_PingPayload);
  ("tag_FindNodes_Distances", nstr l_Distances ^ ",2");
  ("tag_FindContent_ContentKey", nstr l_ContentKey);
  ("tag_Offer_ContentKeys", nstr l_OfferKeys ^ "," ^ nstr l_ContentKey);
  ("tag_Nodes_Enrs", nstr l_Enrs ^ "," ^ nstr l_Enr);
  ("tag_ConnectionId_Id", "2");
  ("tag_Content_Content", nstr l_Content);
  ("tag_Enrs_Enrs", nstr l_Enrs ^ "," ^ nstr l_Enr);
  ("tag_Accept_ContentKeys", nstr l_AcceptBits);
  ("tag_AcceptV1_ContentKeys", nstr l_AcceptV1Keys);
  ("ContentKeysLimit", nstr l_OfferKeys);
  ("MaxClientInfoByteLength", nstr l_ClientInfo);
  ("MaxCapabilitiesLength", nstr l_Capabilities);
  ("MaxErrorByteLength", nstr l_ErrMessage);
  ("CustomPayloadExtensionsLimit", nstr l_CustomPayload);
  ("digest_Bellatrix", Util.hex_of_bytes (ub d_Bellatrix)); ("digest_Capella", Util.hex_of_bytes (ub d_Capella));
  ("digest_Deneb", Util.hex_of_bytes (ub d_Deneb)); ("digest_Electra", Util.hex_of_bytes (ub d_Electra));
] @ Drv_c14_more.consts

(* first field whose declared limit the value exceeds *)
let violated (t : codec) (names : string list) (fs : field list) : string option =
  let bs = t.c_limits fs in
  let rec go bs ns i = match bs with
    | [] -> None
    | false :: _ -> Some (match List.nth_opt ns i with Some n -> n | None -> "f" ^ string_of_int i)
    | true :: r -> go r ns (i + 1) in
  go bs names 0

(* ---- beacon Forked* wrappers: the payload codec is the oracle field of the line *)
let wrappers = [("ForkedBootstrap", WBootstrap); ("ForkedUpdate", WUpdate); ("ForkedFinality", WFinality);
                ("ForkedOptimistic", WOptimistic); ("ForkedHistSummaries", WHistSummaries)]
let drop4 l = match l with _ :: _ :: _ :: _ :: r -> r | _ -> []
let take4 l = match l with a :: b' :: c :: d :: _ -> [a; b'; c; d] | _ -> l
let forked_dec wname hex oracle impl (sent : (string * int * string) option) : string option * string list =
  let w = List.assoc wname wrappers in
  let data = Util.bytes_of_hex hex in
  let rest = drop4 data in
  let orc = List.map (fun s -> if s = "E" then None else if s = "=" then Some (b rest) else Some (b (Util.bytes_of_hex s)))
      (String.split_on_char ',' oracle) in
  let rel p = if ub p = rest then "=" else Util.hex_of_bytes (ub p) in
  let m = match dec_Forked_oracle code_strict_forked_scope w orc (b data) with
    | Ok ((d, k), p) -> Printf.sprintf "ok %s/%d/%s" (Util.hex_of_bytes (ub d)) (int_n k) (rel p)
    | Err e -> Printf.sprintf "err %d" (int_n e) | Panic -> "panic" in
  let sel = if List.length data >= 4 then fork_select w (b (take4 data)) else None in
  let mons =
    if starts impl "panic" then ["decoder-panics-" ^ wname ^ " " ^ impl]
    else if starts impl "ok " then begin
      (* the digest switch: an accepted input must carry a digest the wrapper knows, and the payload type it selects *)
      let parts = String.split_on_char '/' (after impl 3) in
      let ik = (match parts with [_; k; _] -> int_of_string k | _ -> -2) in
      (match sel with
       | None -> ["forked-unknown-digest-accepted-" ^ wname ^ " impl=" ^ (if String.length impl > 60 then String.sub impl 0 60 else impl)]
       | Some k -> if int_n k <> ik then ["forked-wrong-payload-type-" ^ wname ^ Printf.sprintf " digest selects %d, implementation used %d" (int_n k) ik] else [])
      @ (match parts with
          | [_; _; p] when p <> "=" -> ["canonicity-trailing-bytes-" ^ wname ^ " payload re-encodes differently"]
          | _ -> [])
    end else
      (* round trip: a value whose digest selects its own payload type must come back *)
      (match sent, sel with
       | Some (dg, k, _), Some ks when int_n ks = k && starts impl "err" &&
           (match List.nth_opt orc k with Some (Some _) -> true | _ -> false) -> ["roundtrip-" ^ wname ^ " digest " ^ dg]
       | _ -> []) in
  (Some m, mons)

let handle fields impl : string option * string list =
  match fields with
  | ["const"; name] ->
    (match List.assoc_opt name consts with
     | Some v -> (Some ("ok " ^ v), [])
     | None -> (Some "driver: unknown constant", []))
  | ["decf"; wname; hex; oracle] -> forked_dec wname hex oracle impl None
  | ["rtf"; wname; digest; k; payload; oracle] ->
    let data = Util.bytes_of_hex digest @ Util.bytes_of_hex payload in
    forked_dec wname (Util.hex_of_bytes data) oracle impl (Some (digest, int_of_string k, payload))
  | ["encf"; wname; digest; k; payload] ->
    let m = match enc_Forked (fun _ p -> p) ((b (Util.bytes_of_hex digest), n_of_util (Util.n_of_int (int_of_string k))), b (Util.bytes_of_hex payload)) with
      | Ok x -> "ok " ^ Util.hex_of_bytes (ub x) | Err _ -> "err" | Panic -> "panic" in
    (Some m, if starts impl "panic" then ["encoder-panics-" ^ wname] else [])
  | ["redec"; tname; _hx; hy] ->
    (* decoding hy into an object that already holds the decoding of hx.  For the types whose decoder is
       receiver-independent today the model observable is dec_T of hy alone (dec_T is a function of the bytes); a
       difference is a CORRESPONDENCE difference, not a violation of the property as stated (no input violates it unless
       some call site reuses a receiver).  The receiver-dependent types (library convention) are not compared. *)
    if List.mem tname Drv_c14_more.receiver_dependent then (None, [])
    else begin
      let (_, t, _) = (try find_type tname with Not_found -> failwith ("unknown type " ^ tname)) in
      let m = match t.c_dec_code (b (Util.bytes_of_hex hy)) with
        | Ok fs -> "ok " ^ dump fs | Err e -> Printf.sprintf "err %d" (int_n e) | Panic -> "panic" in
      (Some m, if starts impl "panic" then ["decoder-panics-" ^ tname ^ " on a used object " ^ impl] else [])
    end
  | ["hold"; tname; arg] ->
    let (_, t, _) = (try find_type tname with Not_found -> failwith ("unknown type " ^ tname)) in
    let m = match t.c_enc (parse_dump t arg) with
      | Ok x -> "ok " ^ Util.hex_of_bytes (ub x) | Err _ -> "err" | Panic -> "panic" in
    (None, if m = impl then [] else ["encoding-changed-by-later-encode-" ^ tname ^ " held bytes differ from the encoding"])
  | [kind; tname; arg] ->
    let (_, t, names) = (try find_type tname with Not_found -> failwith ("unknown type " ^ tname)) in
    (match kind with
     | "enc" ->
       let m = match t.c_enc (parse_dump t arg) with
         | Ok x -> "ok " ^ Util.hex_of_bytes (ub x) | Err _ -> "err" | Panic -> "panic" in
       (Some m, if starts impl "panic" then ["encoder-panics-" ^ tname ^ " " ^ impl] else [])
     | "rt" ->
       let v = parse_dump t arg in
       let m = match t.c_enc v with
         | Ok x -> (match t.c_dec_code x with Ok fs -> "ok " ^ dump fs | Err _ -> "err" | Panic -> "panic")
         | Err _ -> "encerr" | Panic -> "panic" in
       (* the property on the implementation: (a) in-limit values come back; (b) over-limit values do not get through *)
       let mons =
         if starts impl "panic" then ["decoder-panics-" ^ tname ^ " on its own encoder's output"]
         else if not (t.c_wf v) then []
         else match violated t names v with
           | None -> if impl = "ok " ^ arg then [] else ["roundtrip-" ^ tname ^ " decode(encode v) gave " ^ impl]
           | Some f -> if starts impl "ok" then ["limit-not-enforced-" ^ tname ^ "-" ^ f ^ " over-limit value encoded and decoded"] else [] in
       (Some m, mons)
     | "dec" ->
       let data = b (Util.bytes_of_hex arg) in
       let r = t.c_dec_code data in
       let m = match r with Ok fs -> "ok " ^ dump fs | Err e -> Printf.sprintf "err %d" (int_n e) | Panic -> "panic" in
       let mons =
         if starts impl "panic" then ["decoder-panics-" ^ tname ^ " " ^ impl]
         else if starts impl "ok " then begin
           let got = (try Some (parse_dump t (after impl 3)) with _ -> None) in
           let lim = match got with
             | None -> ["unparsable-" ^ tname ^ " " ^ impl]
             | Some fs -> (match violated t names fs with
                 | Some f -> ["limit-not-enforced-" ^ tname ^ "-" ^ f ^ " decoder returned an over-limit value"]
                 | None -> []) in
           (* the strict spec rejects (and so does the model of the code) yet the implementation accepts.  The two
              repaired laxities are reported under their own canonicity-<quirk>-<Type> key on the reenc line. *)
           let acc = if not (is_ok (t.c_dec_spec data)) && not (is_ok r) && t.c_quirk data = "other"
             then ["accepts-what-spec-rejects-" ^ tname ^ " impl=" ^ impl] else [] in
           lim @ acc
         end else [] in
       (Some m, mons)
     | "reenc" ->
       let data = b (Util.bytes_of_hex arg) in
       let m = match t.c_dec_code data with
         | Ok fs -> (match t.c_enc fs with Ok x -> "ok " ^ Util.hex_of_bytes (ub x) | Err _ -> "err" | Panic -> "panic")
         | _ -> "nodec" in
       let mons =
         if starts impl "ok " then
           (if after impl 3 = arg then [] else ["canonicity-" ^ t.c_quirk data ^ "-" ^ tname ^ " re-encodes to " ^ after impl 3])
         else if starts impl "err" then ["canonicity-reencode-fails-" ^ tname]
         else if starts impl "panic" then ["encoder-panics-" ^ tname ^ " " ^ impl]
         else [] in
       (Some m, mons)
     | _ -> (Some "driver: unknown line", []))
  | _ -> (Some "driver: unknown line", [])

let () = Util.run handle
