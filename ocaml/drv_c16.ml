(* drv_c16.ml : model side of the C16 correspondence (extracted Model/Slots.v) and the property monitors,
   which are evaluated on the IMPLEMENTATION observables only. *)
open C16_model
let n_ (k : int) : n = Obj.magic (Util.n_of_int k)
let int_n (x : n) : int = Util.int_of_n (Obj.magic x)
let int_nat (x : nat) : int = Util.int_of_nat (Obj.magic x)
let nat_ (k : int) : nat = Obj.magic (Util.nat_of_int k)

(* the flow /repo has NOW: the repaired one (offer() releases on its two early exits, gossip releases when the queue is full) *)
let code_fixed = true

let starts s p = String.length s >= String.length p && String.sub s 0 (String.length p) = p
let field (obs : string) (k : string) : string =
  let parts = String.split_on_char ' ' obs in
  let pre = k ^ "=" in
  match List.find_opt (fun p -> starts p pre) parts with
  | Some p -> String.sub p (String.length pre) (String.length p - String.length pre)
  | None -> "?"
let ifield obs k = match int_of_string_opt (field obs k) with Some v -> v | None -> -1

let step_of = function
  | "marshal-error" -> SMarshalErr
  | "silent-peer" -> STalkErr
  | "empty-reply" -> SReply REmpty
  | "wrong-code" -> SReply RWrongCode
  | "undecodable" -> SReply RUndecodable
  | "wrong-count" -> SReply RWrongCount
  | "all-declined" -> SReply RAllDeclined
  | "shutdown-before-transfer" -> SReply (RAccepted TShutdown)
  | "dial-failure" -> SReply (RAccepted TDialFail)
  | "write-failure" -> SReply (RAccepted TWriteFail)
  | "success" -> SReply (RAccepted TSuccess)
  | s -> failwith ("unknown step " ^ s)

let in_of limit = function
  | "version-error" -> IVersionErr
  | "filter-error" -> IFilterErr
  | "no-key-accepted" -> INoKeyAccepted
  | "no-permit" -> INoPermit
  | o when try_acquire (n_ limit) (n_ 0) = None -> ignore o; INoPermit     (* limit 0: GetInboundPermit cannot succeed *)
  | "shutdown-before-select" -> IGot [RShutdown]
  | "accept-failure" | "accept-timeout" -> IGot [RAcceptFail]
  | "read-decode-error" -> IGot [RRead HDecodeErr]
  | "read-count-mismatch" -> IGot [RRead HCountMismatch]
  | "read-enqueued" -> IGot [RRead HEnqueued; RAcceptFail]
  | "read-queue-full" -> IGot [RRead HQueueFull; RAcceptFail]
  | s -> failwith ("unknown outcome " ^ s)

let leak_key step = "permit-leak-" ^ step

(* rounds of the gossip loop on one semaphore *)
let rec gossip_rounds fixed limit targets rounds sem room (q, d, s) =
  if rounds = 0 then (sem, room, (q, d, s)) else
  match gossip_round fixed (n_ limit) (nat_ targets) sem room ((q, d), s) with
  | Ok ((sem', room'), ((q', d'), s')) -> gossip_rounds fixed limit targets (rounds - 1) sem' room' (q', d', s')
  | _ -> failwith "gossip_round: release without a held slot"

let handle0 fields impl : string option * string list =
  match fields with
  | ["offer"; step; limit; mode; _ver] ->
    let limit = int_of_string limit in
    let evs = offer code_fixed (step_of step) in
    let c = int_nat (calls evs) in
    let res = if offer_err (step_of step) then "err" else "ok" in
    let free = if mode = "real" then limit - 1 + int_nat (effective (Acquire :: evs)) else limit in
    let m = Printf.sprintf "ok calls=%d res=%s free=%d" c res free in
    let icalls = ifield impl "calls" and ifree = ifield impl "free" in
    let mons =
      (if icalls = 0 || (mode = "real" && ifree < limit) then
         [Printf.sprintf "%s Release calls=%d, %d of %d outbound slots obtainable afterwards" (leak_key step) icalls ifree limit] else []) @
      (if ifree > limit then [Printf.sprintf "permit-double-release %d slots obtainable, limit %d" ifree limit] else []) in
    (Some m, mons)
  | ["gossip"; limit; targets; room] ->
    let limit = int_of_string limit and targets = int_of_string targets and room = int_of_string room in
    let (sem, _, (q, _, _)) = gossip_rounds code_fixed limit targets 1 (n_ 0) (n_ room) (n_ 0, n_ 0, n_ 0) in
    let m = Printf.sprintf "ok queued=%d free=%d" (int_n q) (limit - int_n sem) in
    let iq = ifield impl "queued" and ifree = ifield impl "free" in
    let mons =
      (if iq + ifree < limit then [Printf.sprintf "permit-leak-queue-full %d queued + %d obtainable < limit %d after one gossip round onto a queue with %d free places" iq ifree limit room] else []) @
      (if iq + ifree > limit then [Printf.sprintf "permit-double-release %d queued + %d obtainable > limit %d" iq ifree limit] else []) in
    (Some m, mons)
  | ["gossipdrain"; limit; _targets; _rounds; cap; total] ->
    (* total = number of gossip targets the implementation really iterated over (timing dependent: routing table); the
       model is one pass over that many targets, which is what C16_gossip_round_conserves is about *)
    let limit = int_of_string limit and total = int_of_string total and cap = int_of_string cap in
    let (sem, _, (q, _, _)) = gossip_rounds code_fixed limit total 1 (n_ 0) (n_ cap) (n_ 0, n_ 0, n_ 0) in
    let per_item = int_nat (effective (Acquire :: offer code_fixed (SReply REmpty))) in
    let before = limit - int_n sem in
    let after = before + int_n q * per_item in
    let m = Printf.sprintf "ok queued=%d free_before=%d free_after=%d" (int_n q) before after in
    let iq = ifield impl "queued" and ib = ifield impl "free_before" and ia = ifield impl "free_after" in
    let mons =
      (if ia < limit then
         (if iq + ib < limit then [Printf.sprintf "permit-leak-queue-full %d slots never came back (%d queued + %d obtainable < limit %d once the queue overflowed)" (limit - ia) iq ib limit]
          else [Printf.sprintf "permit-leak-empty-reply %d of %d slots obtainable after the workers drained the queue" ia limit]) else []) @
      (if ia > limit || iq + ib > limit then [Printf.sprintf "permit-double-release %d obtainable, limit %d" ia limit] else []) in
    (Some m, mons)
  | ["shutdownqueued"; limit; targets] ->
    let limit = int_of_string limit and targets = int_of_string targets in
    let (sem, _, (q, _, _)) = gossip_rounds code_fixed limit targets 1 (n_ 0) (n_ (targets + 1)) (n_ 0, n_ 0, n_ 0) in
    (* gossip_path PShutdownQueued = [] : the queued requests keep their slots (stated as C16_shutdown_queued_keeps_slot) *)
    let m = Printf.sprintf "ok queued=%d free=%d" (int_n q) (limit - int_n sem) in
    let iq = ifield impl "queued" and ifree = ifield impl "free" in
    let mons =
      (if iq + ifree < limit then [Printf.sprintf "permit-leak-gossip %d queued + %d obtainable < limit %d" iq ifree limit] else []) @
      (if iq + ifree > limit then [Printf.sprintf "permit-double-release %d queued + %d obtainable > limit %d" iq ifree limit] else []) in
    (Some m, mons)
  | ["in"; outcome; limit; _via; _ver] ->
    let limit = int_of_string limit in
    let o = in_of limit outcome in
    let (evs, _fin) = in_events o in
    let acq = if acquired evs then 1 else 0 in
    let mid = if outcome = "shutdown-before-select" then "-" else if outcome = "no-permit" then "0" else string_of_int (limit - acq) in
    let free = limit - acq + int_nat (effective evs) in
    let delivered = if outcome = "read-enqueued" && acq = 1 then 1 else 0 in
    let m = Printf.sprintf "ok accepted=%d free_mid=%s free=%d delivered=%d" acq mid free delivered in
    let iacc = ifield impl "accepted" and ifree = ifield impl "free" and imid = field impl "free_mid" in
    let mons =
      (if ifree < limit then [Printf.sprintf "inbound-permit-leak-%s %d of %d inbound slots obtainable after quiescence" outcome ifree limit] else []) @
      (if ifree > limit then [Printf.sprintf "permit-double-release inbound: %d slots obtainable, limit %d" ifree limit] else []) @
      (if iacc = 1 && outcome <> "no-permit" && imid <> "-" && int_of_string_opt imid <> Some (limit - 1)
       then [Printf.sprintf "inbound-accept-without-slot accepted but %s of %d slots still obtainable during the transfer" imid limit] else []) in
    (Some m, mons)
  | ["permops"; _dir; limit; ops] ->
    let limit = int_of_string limit in
    let opl = String.split_on_char ',' ops in
    let pops = List.map (fun o -> if o = "g" then PopGet else if o = "S" then PopRestart else PopRelease (Obj.magic (Util.nat_of_int (int_of_string (String.sub o 1 (String.length o - 1)))))) opl in
    let m = match pops_run (n_ limit) pops (n_ 0, []) with
      | Ok l -> "ok s=" ^ String.concat "," (List.map2 (fun o (ok, c) ->
          Printf.sprintf "%s:%d" (if o = "g" then (if ok then "1" else "0") else "-") (limit - int_n c)) opl l)
      | _ -> "panic" in
    (* specification on the implementation's own observations: a handle counts as in use from a successful Get until the
       FIRST Release through it; after every step in use <= limit and obtainable = limit - in use *)
    let mons =
      if not (starts impl "ok") then (if starts impl "panic" then ["permit-double-release " ^ impl] else [])
      else begin
        let steps = String.split_on_char ',' (field impl "s") in
        let handles = ref [] (* (index, live) newest first *) and nh = ref 0 and inuse = ref 0 and out = ref [] in
        List.iteri (fun k o ->
            let st = (try List.nth steps k with _ -> "?:0") in
            let got, free = (match String.split_on_char ':' st with [g; f] -> (g, (try int_of_string f with _ -> -1)) | _ -> ("?", -1)) in
            if o = "g" then begin
              if got = "1" then begin
                if !inuse >= limit then out := Printf.sprintf "permits-in-use-exceeds-limit step %d: a permit was handed out with %d of %d already in use" k !inuse limit :: !out;
                handles := (!nh, true) :: !handles; incr inuse
              end else handles := (!nh, false) :: !handles;
              incr nh
            end else if o = "S" then () else begin
              let i = int_of_string (String.sub o 1 (String.length o - 1)) in
              (match List.assoc_opt i !handles with
               | Some true -> handles := (i, false) :: List.remove_assoc i !handles; decr inuse
               | _ -> ())
            end;
            if free > limit - !inuse then out := Printf.sprintf "permits-available-exceeds-limit step %d (%s): %d obtainable with %d of %d in use" k o free !inuse limit :: !out
            else if free >= 0 && free < limit - !inuse then out := Printf.sprintf "permit-leak-ops step %d (%s): %d obtainable with %d of %d in use" k o free !inuse limit :: !out) opl;
        List.rev !out
      end in
    (Some m, mons)
  | ["restart"; limit; _ver] ->
    let limit = int_of_string limit in
    let pre = List.init (limit - 1) (fun _ -> PopGet) in
    let m = match pops_run (n_ limit) (pre @ [PopGet; PopGet; PopRestart; PopGet]) (n_ 0, []) with
      | Ok l ->
        let arr = Array.of_list l in
        let k = limit - 1 in
        let (o1, _) = arr.(k) and (o2, _) = arr.(k + 1) and (_, cs) = arr.(k + 2) and (o3, _) = arr.(k + 3) in
        let bit x = if x then 1 else 0 in
        Printf.sprintf "ok o1=%d o2=%d free=%d o3=%d" (bit o1) (bit o2) (limit - int_n cs) (bit o3)
      | _ -> "panic" in
    let mons =
      if not (starts impl "ok") then []
      else
        (if ifield impl "o1" = 1 && ifield impl "free" > 0 then
           [Printf.sprintf "permits-available-exceeds-limit %d inbound slot(s) obtainable after Utp.Start() while every slot is in use" (ifield impl "free")] else []) @
        (if ifield impl "o1" = 1 && ifield impl "o3" = 1 then
           ["permits-in-use-exceeds-limit an OFFER was accepted after Utp.Start() although every inbound slot is in use"] else []) @
        (if ifield impl "o1" = 1 && ifield impl "o2" = 1 then ["more-inbound-transfers-than-limit second OFFER accepted with every slot in use"] else []) in
    (Some m, mons)
  | ["laterelease"; limit; _ver] ->
    let limit = int_of_string limit in
    (* the same call sequence on the model: limit-1 held, Get A, Release A (fast), Get B, Release A again (deferred), Get C *)
    let pre = List.init (limit - 1) (fun _ -> PopGet) in
    let ia = limit - 1 in
    let m = match pops_run (n_ limit) (pre @ [PopGet; PopRelease (Obj.magic (Util.nat_of_int ia)); PopGet; PopRelease (Obj.magic (Util.nat_of_int ia)); PopGet]) (n_ 0, []) with
      | Ok l ->
        let arr = Array.of_list l in
        let k = limit - 1 in
        let (oka, _) = arr.(k) and (okb, _) = arr.(k + 2) and (_, cdur) = arr.(k + 3) and (okc, _) = arr.(k + 4) in
        Printf.sprintf "ok a=%d b=%d during=%d c=%d after=1" (if oka then 1 else 0) (if okb then 1 else 0) (limit - int_n cdur) (if okc then 1 else 0)
      | _ -> "panic" in
    let ib = ifield impl "b" and idur = ifield impl "during" and ic = ifield impl "c" and iafter = ifield impl "after" in
    let mons =
      if not (starts impl "ok") then []
      else
        (if ib = 1 && idur > 0 then [Printf.sprintf "permits-available-exceeds-limit %d slot(s) obtainable while transfer B holds the last one (A's late Release freed it)" idur] else []) @
        (if ib = 1 && ic = 1 then ["permits-in-use-exceeds-limit a third OFFER was accepted while B is in progress and the limit is reached"] else []) @
        (if iafter > 1 then [Printf.sprintf "permit-double-release inbound: %d obtainable at the end, expected 1" iafter] else []) @
        (if iafter < 1 then [Printf.sprintf "inbound-permit-leak-laterelease %d obtainable at the end, expected 1" iafter] else []) in
    (Some m, mons)
  | ["ostall"; limit; held0; _ver] ->
    let limit = int_of_string limit and held0 = int_of_string held0 in
    let m = match ostall_scenario false (n_ limit) (n_ held0) with
      | Ok (during, after) -> Printf.sprintf "ok res=ok during=%d calls_during=0 after=%d calls=1" (int_n during) (int_n after)
      | _ -> "panic" in
    let iduring = ifield impl "during" and icd = ifield impl "calls_during" and iafter = ifield impl "after" and icalls = ifield impl "calls" in
    (* observed order judged by the proved predicate: a Release (call seen / slot obtainable) while the transfer goroutine
       is still dialling is a Release before the end of the transfer *)
    let released_early = icd > 0 || iduring > limit - held0 - 1 in
    let observed = if released_early then [PAcquire; PRelease; PGaveUp; PRelease] else [PAcquire; PGaveUp; PRelease] in
    let mons =
      (if starts impl "ok" && not (slot_covers false false observed) then
         [Printf.sprintf "outbound-slot-free-during-transfer %d of %d slots obtainable (%d held by others), %d Release calls while the accepted transfer is still dialling" iduring limit held0 icd] else []) @
      (if starts impl "ok" && iafter < limit - held0 then [Printf.sprintf "permit-leak-dial-failure %d of %d slots obtainable after quiescence" iafter (limit - held0)] else []) @
      (if starts impl "ok" && iafter > limit - held0 then [Printf.sprintf "permit-double-release outbound: %d slots obtainable, expected %d" iafter (limit - held0)] else []) @
      (if starts impl "ok" && icalls = 0 then ["permit-leak-dial-failure no Release call at all"] else []) in
    (Some m, mons)
  | ["stall"; limit; held0; _ver] ->
    let limit = int_of_string limit and held0 = int_of_string held0 in
    (* the model plays the same scenario on the phase lists of the code as it is (release after the read) *)
    let m = match stall_scenario false false (n_ limit) (n_ held0) with
      | Ok ((during, second), after) ->
        Printf.sprintf "ok first=1 during=%d second=%d delivered=1 after=%d restream=0" (int_n during) (if second then 1 else 0) (int_n after)
      | _ -> "panic" in
    let ifirst = ifield impl "first" and iduring = ifield impl "during" and isecond = ifield impl "second"
    and iafter = ifield impl "after" in
    (* the observed order of events of the first transfer as a phase list, judged by the proved predicate slot_covers:
       a slot obtainable during the stall beyond limit-held0-1 means the Release came before the end of the read *)
    let released_early = ifirst = 1 && iduring > limit - held0 - 1 in
    let observed = if released_early then [PAcquire; PConnected; PRelease; PReadDone; PRelease]
      else [PAcquire; PConnected; PReadDone; PRelease; PRelease] in
    let in_progress_during = ifirst + held0 + isecond in
    let mons =
      (if ifirst = 1 && not (slot_covers false false observed) then
         [Printf.sprintf "inbound-slot-free-during-transfer %d of %d slots obtainable while an accepted transfer (plus %d held) is still being read" iduring limit held0] else []) @
      (if ifirst = 1 && in_progress_during > limit then
         [Printf.sprintf "more-inbound-transfers-than-limit %d transfers in progress at once, limit %d" in_progress_during limit] else []) @
      (if iafter < limit - held0 then [Printf.sprintf "inbound-permit-leak-stall %d of %d slots obtainable after quiescence" iafter (limit - held0)] else []) @
      (if iafter > limit - held0 then [Printf.sprintf "permit-double-release inbound: %d slots obtainable, expected %d" iafter (limit - held0)] else []) @
      (let rs = field impl "restream" in
       if rs <> "0" && rs <> "-" && rs <> "?" then
         ["inbound-stream-accepted-without-slot a second stream on the connection id of a completed offer was " ^ rs ^ " (no slot held)"] else []) @
      (if ifirst = 1 && ifield impl "delivered" <> 1 then ["stalled-transfer-not-delivered"] else []) in
    (Some m, mons)
  | ["instress"; limit; n] ->
    let limit = int_of_string limit and n = int_of_string n in
    let rec go k sem = if k = 0 then sem else match try_acquire (n_ limit) sem with Some c -> go (k - 1) c | None -> sem in
    let acc = int_n (go n (n_ 0)) in
    let m = Printf.sprintf "ok accepted=%d free=%d" acc limit in
    let iacc = ifield impl "accepted" and ifree = ifield impl "free" in
    let mons =
      (if iacc > limit then [Printf.sprintf "more-transfers-than-limit inbound: %d offers accepted at once, limit %d" iacc limit] else []) @
      (if ifree < limit then [Printf.sprintf "inbound-permit-leak-stress %d of %d inbound slots obtainable after Stop" ifree limit] else []) @
      (if ifree > limit then [Printf.sprintf "permit-double-release inbound: %d slots obtainable, limit %d" ifree limit] else []) in
    (Some m, mons)
  | ["stress"; limit; k; _m] ->
    let limit = int_of_string limit and k = int_of_string k in
    let bound = min limit k in
    let ipeak = ifield impl "peak" and ifree = ifield impl "free" in
    (* the peak depends on the schedule: any value 0..min(limit, k) is a behaviour of the model (C16_any_schedule) *)
    let peak = if ipeak >= 0 && ipeak <= bound then ipeak else bound in
    let m = Printf.sprintf "ok peak=%d free=%d" peak limit in
    let mons =
      (if ipeak > limit then [Printf.sprintf "more-transfers-than-limit outbound: %d slots held at once, limit %d" ipeak limit] else []) @
      (if ifree < limit then [Printf.sprintf "permit-leak-stress %d of %d outbound slots obtainable afterwards" ifree limit] else []) @
      (if ifree > limit then [Printf.sprintf "permit-double-release %d slots obtainable, limit %d" ifree limit] else []) in
    (Some m, mons)
  | _ -> (Some "driver: unknown line", [])

let contains s sub =
  let n = String.length s and m = String.length sub in
  let rec go i = i + m <= n && (String.sub s i m = sub || go (i + 1)) in go 0

(* the model never panics (C16_any_schedule, C16_gossip_round_total): a panic of the real code is a violation; the
   semaphore's own "released more than held" is a slot released more often than it was taken *)
let handle fields impl =
  if starts impl "panic" then
    (Some "ok (the model does not panic)",
     [(if contains impl "released_more_than_held" then "permit-double-release " else "slot-code-panic ") ^ impl])
  else handle0 fields impl

let () = Util.run handle
